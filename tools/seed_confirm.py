#!/usr/bin/env python3
"""Confirms a seeded change produced by a sub-agent in a scratch worktree and stores it under /verif/seeded/<id>/.
usage: seed_confirm.py <worktree> <id> <prop> [--pkgs ./leveldb/journal/,./leveldb/] [--skip-suite]
Checks: builds; demo fails with the change; existing tests of the given packages pass with the change (demo
moved aside); demo passes without the change. Then applies the patch to a scratch copy of /repo, runs the property's
quick check on it and records whether it raised a violation."""
import json, os, shutil, subprocess, sys, glob
wt, sid, prop = sys.argv[1], sys.argv[2], sys.argv[3]
pkgs = ["./leveldb/"]
for i, a in enumerate(sys.argv):
    if a == "--pkgs": pkgs = sys.argv[i+1].split(",")
skip_suite = "--skip-suite" in sys.argv
env = dict(os.environ, GOFLAGS="-mod=mod", GOPROXY="off", GOSUMDB="off", GOTOOLCHAIN="local")
def run(cmd, cwd=wt, timeout=1500):
    r = subprocess.run(cmd, shell=True, cwd=cwd, env=env, capture_output=True, text=True, timeout=timeout)
    return r.returncode, (r.stdout + r.stderr)
seed = os.path.join(wt, "SEED")
patch = os.path.join(seed, "patch.diff")
demos = [p for p in glob.glob(os.path.join(wt, "leveldb", "**", "seed_demo_test.go"), recursive=True)]
assert os.path.exists(patch) and demos, "missing patch or demo"
demo = demos[0]; demodir = os.path.dirname(demo); rel = "./" + os.path.relpath(demodir, wt) + "/"
meta = {"id": sid, "property": prop, "demo_package": rel, "ran": []}
def note(k, ok, detail=""):
    meta["ran"].append({"step": k, "ok": ok, "detail": detail[-400:]}); print(("ok   " if ok else "FAIL ") + k)
# make sure the patch is applied
rc, out = run("git apply --check -R SEED/patch.diff")
if rc != 0: run("git apply SEED/patch.diff")
rc, out = run("go build ./leveldb/... ")
note("builds with the change", rc == 0, out)
rc, out = run(f"go test -vet=off -count=1 -timeout 300s -run 'Seed|seed' {rel}")
note("demo fails with the change", rc != 0 and "FAIL" in out, out)
aside = demo + ".aside"
os.rename(demo, aside)
try:
    if not skip_suite:
        rc, out = run("go test -vet=off -count=1 -timeout 25m " + " ".join(pkgs))
        note("existing tests pass with the change: " + " ".join(pkgs), rc == 0, out)
finally:
    os.rename(aside, demo)
run("git apply -R SEED/patch.diff")
rc, out = run(f"go test -vet=off -count=1 -timeout 300s -run 'Seed|seed' {rel}")
note("demo passes without the change", rc == 0, out)
run("git apply SEED/patch.diff")
# store
dst = os.path.join("/verif/seeded", sid)
os.makedirs(dst, exist_ok=True)
shutil.copy(patch, os.path.join(dst, "patch.diff"))
shutil.copy(demo, os.path.join(dst, "seed_demo_test.go"))
if os.path.exists(os.path.join(seed, "README.md")): shutil.copy(os.path.join(seed, "README.md"), os.path.join(dst, "README.md"))
# run my check against a scratch copy of /repo with the patch applied (outside /repo and /verif, removed afterwards):
# /repo itself is never touched
import tempfile
scratch = tempfile.mkdtemp(prefix="gocv-seedconfirm-")
try:
    subprocess.run(["rsync", "-a", "--exclude", ".git", "/repo/", scratch + "/"], check=True)
    pr = subprocess.run(["patch", "-p1", "-s", "--no-backup-if-mismatch", "-i", os.path.join(dst, "patch.diff")], cwd=scratch, capture_output=True, text=True)
    if pr.returncode != 0:
        note("patch applies to the current /repo", False, pr.stdout + pr.stderr)
    else:
        c = subprocess.run(["/verif/bin/gocv", "check", "-prop", prop, "-tier", "quick", "-repo", scratch, "-out", os.path.join(scratch, ".gocv-out"),
                            "-findings", "/verif/known_findings.txt"], capture_output=True, text=True, env=env, timeout=1200)
        out = c.stdout
        viol = [l for l in out.splitlines() if l.startswith("VIOLATION")]
        meta["check_exit"] = c.returncode
        meta["violations"] = [v.split("obligation=")[1] if "obligation=" in v else v for v in viol][:12]
        note(f"check {prop} raises a violation on the change", c.returncode == 1 and bool(viol), "\n".join(viol[:5]))
finally:
    shutil.rmtree(scratch, ignore_errors=True)
meta["needs_to_manifest"] = open(os.path.join(seed, "README.md")).read()[:1500] if os.path.exists(os.path.join(seed, "README.md")) else ""
json.dump(meta, open(os.path.join(dst, "meta.json"), "w"), indent=1)
print(json.dumps({k: meta[k] for k in ("id", "property", "violations") if k in meta}, indent=1)[:1200])
