#!/usr/bin/env python3
"""Turns the demonstration test of a confirmed seed into an in-package scenario driver:
usage: seed2scenario.py <seed-id> <obligation-prefix> <file-stem> [NewTestName]
Copies /verif/seeded/<id>/seed_demo_test.go to /verif/scenarios/inpkg/<file-stem>_test.go.in with its top-level helper
identifiers prefixed (so that drivers overlaid together do not clash), renames the test(s) and adds map.json entries."""
import json, re, sys, os
sid, obl, stem = sys.argv[1], sys.argv[2], sys.argv[3]
newname = sys.argv[4] if len(sys.argv) > 4 else None
d = f"/verif/seeded/{sid}"
meta = json.load(open(d + "/meta.json"))
pkgdir = meta.get("demo_package", "./leveldb/").strip("./").rstrip("/")  # e.g. leveldb or leveldb/table
s = open(d + "/seed_demo_test.go").read()
pk = re.search(r"^package (\w+)", s, re.M).group(1)
tests = re.findall(r"^func (Test\w+)\(", s, re.M)
s = s.replace(f"package {pk}\n", f"package {pk}\n\n// In-package scenario driver (overlaid into package {pkgdir} for a run; see /verif/scenarios/map.json):\n// obligation {obl}\n// (the demonstration written by the seeding agent for seed {sid})\n", 1)
idents = set(re.findall(r"^func ([A-Za-z_]\w*)\(", s, re.M)) | set(re.findall(r"^type ([A-Za-z_]\w*)", s, re.M)) | set(re.findall(r"^var ([A-Za-z_]\w*)", s, re.M)) | set(re.findall(r"^const ([A-Za-z_]\w*)", s, re.M))
for blk in re.findall(r"^(?:var|const) \((.*?)^\)", s, re.M | re.S):
    idents |= set(re.findall(r"^\t([A-Za-z_]\w*)", blk, re.M))
idents = {i for i in idents if not i.startswith("Test")}
pref = "scn" + re.sub(r"\W", "", stem).capitalize()
for i in sorted(idents, key=len, reverse=True):
    s = re.sub(r"(?<![\w.])" + re.escape(i) + r"\b", pref + i[0].upper() + i[1:], s)
p = "/verif/scenarios/map.json"
m = json.load(open(p))
for k, t in enumerate(tests):
    nt = (newname if newname and k == 0 else "TestScenario" + re.sub(r"^Test(SeedDemo_?|Seed\w*?_)?", "", t))
    s = s.replace(t, nt)
    m.append({"obligation": obl, "test": nt, "pkg": pkgdir, "file": stem + "_test.go.in"})
    print(sid, t, "->", nt, "pkg", pkgdir)
open(f"/verif/scenarios/inpkg/{stem}_test.go.in", "w").write(s)
json.dump(m, open(p, "w"), indent=1)
