#!/bin/sh
# usage: mut.sh <prop> <file> <sed-expr>  -- applies a mutation to /repo, runs the check, restores
PROP=$1; FILE=$2; EXPR=$3
cd /repo && cp "$FILE" /tmp/mut.bak && sed -i "$EXPR" "$FILE"
if cmp -s "$FILE" /tmp/mut.bak; then echo "MUTATION DID NOT APPLY: $EXPR"; else
 (go build ./leveldb/... 2>&1 | head -3)
 /verif/bin/gocv check -prop $PROP 2>&1 | grep -E "VIOLATION|property=" | cut -c1-220 | tail -4
fi
cp /tmp/mut.bak "$FILE"; rm -f /tmp/mut.bak
