#!/usr/bin/env python3
"""Re-checks the seeded changes against the current tree: applies each /verif/seeded/<id>/patch.diff to a scratch copy
of /repo (outside /repo and /verif, removed afterwards) and runs the quick check of the seed's property on it.
A seed whose patch no longer applies (the code it changed has been repaired or rewritten since) is reported as such.
usage: seedcheck.py [--id substr]"""
import json, os, shutil, subprocess, sys, tempfile, glob
root = os.path.dirname(os.path.dirname(os.path.abspath(__file__)))
args = sys.argv[1:]
only = args[args.index("--id")+1] if "--id" in args else None
env = dict(os.environ, GOFLAGS="-mod=mod", GOPROXY="off", GOSUMDB="off", GOTOOLCHAIN="local", GOCV_NO_RETRY="1")
scratch = tempfile.mkdtemp(prefix="gocv-seedcheck-")
caught = missed = stale = 0
try:
    for d in sorted(glob.glob(os.path.join(root, "seeded", "*"))):
        sid = os.path.basename(d)
        if only and only not in sid: continue
        meta = json.load(open(os.path.join(d, "meta.json")))
        prop = meta["property"]
        subprocess.run(["rsync", "-a", "--delete", "--exclude", ".git", "/repo/", scratch + "/"], check=True)
        # a seed whose original patch no longer applies may carry a port of the same change to the current code
        pf = os.path.join(d, "patch.current.diff")
        if not os.path.exists(pf):
            pf = os.path.join(d, "patch.diff")
        r = subprocess.run(["patch", "-p1", "-s", "--no-backup-if-mismatch", "-i", pf], cwd=scratch, capture_output=True, text=True)
        if r.returncode != 0:
            stale += 1; print(f"stale    {sid:6s} patch no longer applies"); continue
        b = subprocess.run(["go", "build", "./leveldb/..."], cwd=scratch, env=env, capture_output=True, text=True)
        if b.returncode != 0:
            stale += 1; print(f"stale    {sid:6s} patched tree does not compile any more"); continue
        c = subprocess.run([os.path.join(root, "bin", "gocv"), "check", "-prop", prop, "-repo", scratch, "-out", os.path.join(scratch, ".gocv-out"),
                            "-findings", os.path.join(root, "known_findings.txt")], capture_output=True, text=True, env=env)
        v = [l for l in c.stdout.splitlines() if l.startswith("VIOLATION")]
        if v:
            caught += 1; print(f"caught   {sid:6s} {prop} {v[0].split('obligation=')[1][:100]}")
        else:
            missed += 1; print(f"MISSED   {sid:6s} {prop}")
finally:
    shutil.rmtree(scratch, ignore_errors=True)
print(f"seedcheck: caught {caught}, missed {missed}, stale {stale}")
sys.exit(1 if missed else 0)
