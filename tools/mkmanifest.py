#!/usr/bin/env python3
"""Regenerates /verif/MANIFEST.json from tools/claims.json (the list of claimed checks and not-applicable reasons)."""
import json, os, subprocess
root = os.path.dirname(os.path.dirname(os.path.abspath(__file__)))
claims = json.load(open(os.path.join(root, "tools", "claims.json")))
props = [json.loads(l)["id"] for l in open(os.path.join(root, "properties.jsonl"))]
hook_commits = subprocess.run("git -C /repo log --format=%h --grep='^verif hooks' --reverse", shell=True, capture_output=True, text=True).stdout.split()
checks = []
for pid in props:
    c = claims["claimed"].get(pid)
    if not c:
        continue
    checks.append({
        "property_id": pid,
        "quick_cmd": f"./check.sh {pid} quick",
        "thorough_cmd": f"./check.sh {pid} thorough",
        "evidence_file": f"/verif/evidence/{pid}.json",
        "replay_cmd_template": "./check.sh --replay {path}",
        "engine": "gocv",
        "level_claimed": {"category": "proof", "text": c["text"], "design_ref": c.get("design_ref", "DESIGN.md section 4")},
        "level_note": c["note"],
        "technique": c.get("technique", "contract-based deductive verification: contracts on the real functions, weakest-precondition style VCs generated from /repo's typed AST on every run, discharged by z3 4.8.12 / z3 5.1.0 / cvc5 1.0"),
    })
na = [{"property_id": pid, "reason": claims["not_applicable"][pid]} for pid in props if pid in claims["not_applicable"] and pid not in claims["claimed"]]
m = {
    "version": 1,
    "setup_cmd": "./setup.sh",
    "hooks": {
        "guard": "verif (Go build tag)",
        "enable": "go/packages load of /repo/leveldb/... with -tags verif: the comment-only contract files zz_contracts_verif.go become visible to gocv; no run-time instrumentation",
        "baseline_off_cmd": "cd /repo && go test -vet=off -count=1 -timeout 25m ./...",
        "source_commits": hook_commits,
        "add_only": True,
    },
    "engines": [{"name": "gocv", "path": "/verif/cmd/gocv", "serves_properties": [c["property_id"] for c in checks],
                 "kind_free_text": "verification-condition generator for Go (typed AST, forward symbolic execution between cut points, contracts in comment-only files) + SMT back ends"}],
    "checks": checks,
    "not_applicable": na,
    "notes": claims.get("notes", ""),
}
json.dump(m, open(os.path.join(root, "MANIFEST.json"), "w"), indent=1)
print("MANIFEST.json:", len(checks), "checks,", len(na), "not applicable")
