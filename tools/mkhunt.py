#!/usr/bin/env python3
"""Prepares a defect hunt: a scratch worktree /tmp/hunt-<id> of /repo (contract files deleted) and the prompt
/tmp/prompt-hunt-<id>.txt for a fresh sub-agent that sees only the property text and the list of defects already
known. usage: mkhunt.py <id> <prop>"""
import json, os, subprocess, sys, glob
hid, prop = sys.argv[1], sys.argv[2]
wt = f"/tmp/hunt-{hid}"
props = {json.loads(l)["id"]: json.loads(l) for l in open("/verif/properties.jsonl")}
p = props[prop]
subprocess.run(["git", "-C", "/repo", "worktree", "add", "--detach", "-f", wt, "HEAD"], check=True, capture_output=True)
for f in glob.glob(wt + "/leveldb/**/zz_contracts_verif.go", recursive=True):
    os.remove(f)
known = [l.split("—", 1)[1].strip()[:300] for l in open("/verif/known_findings.txt") if l.startswith(("fixed:", "finding:")) and "—" in l]
anchors = p.get("anchors")
anch = json.dumps(anchors) if not isinstance(anchors, str) else anchors
text = f"""You are reviewing a Go repository (syndtr/goleveldb, a pure-Go LevelDB implementation) in the scratch git worktree {wt} . Work ONLY inside {wt} (never touch /repo or /verif, never read anything under /verif).

Every shell command must start with: export GOFLAGS=-mod=mod GOPROXY=off GOSUMDB=off GOTOOLCHAIN=local   (there is no network; env does not persist between calls).

Here is a semantic property the code is supposed to satisfy:

"{p['title']}: {p['statement']}"
(Quantified over: {p['quantifier']['text']})
(Relevant code: {anch})

Your task: find situations in which the code AS IT IS violates this property, and prove each with a failing Go test. Read the relevant code carefully and look for: error paths that leave state half-updated, results of calls that are ignored, option values or sizes at a boundary, sequences of API calls the existing tests never make, injected storage faults (write / sync / create / remove / rename / read failing once or repeatedly, on any file type), crash points (copy the storage at an arbitrary moment and open the copy), reuse of numbers / buffers / cache entries, and concurrency only where a deterministic schedule can be forced. storage.NewMemStorage() from package leveldb/storage, optionally wrapped by your own small fault-injecting storage.Storage wrapper, is convenient; avoid leveldb/testutil's storage, which needs ginkgo. Tests go in package leveldb (or the sub-package concerned) so that you can reach internals when you need to force a flush or a compaction.

A finding counts only if a test reproduces it deterministically (or nearly so) on the unchanged code, and the failure is a violation of the property as stated - not merely surprising behaviour. Do not change non-test source code. Spend your effort on depth: two solid findings are worth more than ten guesses. If after a thorough look you find nothing, say so - that is a useful answer too.

These defects are already known (several have been fixed in this tree): do not report them again:
""" + "\n".join(" - " + k for k in known) + f"""

Deliver, inside {wt}/HUNT/ :
 - FINDINGS.md : for each finding: what fails (which clause of the property), the exact history / input / fault needed, where in the code the cause is (file, function, lines), the output of the failing test, and - if you see one - the smallest repair a maintainer would accept.
 - one test file per finding, named finding_<n>_test.go.txt (package clause as it must be when copied next to the code; say in FINDINGS.md where to copy it and how to run it).
Leave no stray test files in the source directories when you are done. Keep your final answer short: one line per finding (or "nothing found").
"""
open(f"/tmp/prompt-hunt-{hid}.txt", "w").write(text)
print(wt, len(text))
