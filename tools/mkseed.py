#!/usr/bin/env python3
"""Prepares a seeding run: a scratch worktree /tmp/seed-<id> of /repo (contract files deleted) and the prompt
/tmp/prompt-<id>.txt for a fresh sub-agent that sees only the property text. usage: mkseed.py <id> <prop>"""
import json, os, re, subprocess, sys, glob
sid, prop = sys.argv[1], sys.argv[2]
wt = f"/tmp/seed-{sid}"
props = {json.loads(l)["id"]: json.loads(l) for l in open("/verif/properties.jsonl")}
p = props[prop]
subprocess.run(["git", "-C", "/repo", "worktree", "add", "--detach", "-f", wt, "HEAD"], check=True, capture_output=True)
for f in glob.glob(wt + "/leveldb/**/zz_contracts_verif.go", recursive=True):
    os.remove(f)
hint = None
for f in sorted(glob.glob(f"/tmp/prompt-{prop}?.txt")):
    m = re.search(r"The breakage should need something specific to manifest \((.*?)\) — NOT", open(f).read(), re.S)
    if m: hint = m.group(1); break
if hint is None:
    hint = "particular option values, a particular layout of keys or files, an injected storage fault, a particular interleaving or order of API calls, sizes at a boundary"
earlier = []
for d in sorted(glob.glob(f"/verif/seeded/{prop}?")):
    r = os.path.join(d, "README.md")
    desc = ""
    if os.path.exists(r):
        desc = " ".join(open(r).read().split())[:260]
    diff = open(os.path.join(d, "patch.diff")).read()
    files = ", ".join(sorted(set(re.findall(r"^\+\+\+ b/(.*)$", diff, re.M))))
    earlier.append(f"[{os.path.basename(d)}: {files}] {desc}")
anchors = p.get("anchors")
anch = json.dumps(anchors) if not isinstance(anchors, str) else anchors
text = f"""You are helping test a verification tool. You are given a Go repository (syndtr/goleveldb, a pure-Go LevelDB implementation) in the scratch git worktree {wt} . Work ONLY inside {wt} (never touch /repo or /verif, never read anything under /verif).

Every shell command must start with: export GOFLAGS=-mod=mod GOPROXY=off GOSUMDB=off GOTOOLCHAIN=local   (there is no network; env does not persist between calls).

Here is a semantic property the code is supposed to satisfy:

"{p['title']}: {p['statement']}"
(Relevant code: {anch})

Your task: make ONE small, realistic change to the non-test source code (a plausible slip, 1-10 lines) that BREAKS this property, while the code still compiles and the existing test suite still passes (run: go test -vet=off -count=1 ./leveldb/ — about 2 minutes; if you touch a sub-package also run its tests; run the suite twice, some of its tests are randomised). The breakage should need something specific to manifest ({hint}) — NOT something ordinary use exposes at once, otherwise the existing tests would catch it. storage.NewMemStorage() from package leveldb/storage (optionally wrapped by your own small fault-injecting or operation-logging storage.Storage wrapper) is convenient; avoid leveldb/testutil's storage, which needs ginkgo.

Then write a demonstration: a Go test file {wt}/leveldb/seed_demo_test.go (package leveldb; or in the sub-package you changed) with one test that FAILS with your change and PASSES without it (verify both: apply/revert your patch to check the unchanged code passes).

Deliver, inside {wt}/SEED/ :
 - patch.diff : output of `git diff -- leveldb ':!*seed_demo_test.go' ':!*zz_contracts_verif.go'` containing only your source change (files named zz_contracts_verif.go were deleted from this worktree on purpose: ignore that, do not restore them)
 - seed_demo_test.go : a copy of the demonstration test
 - README.md : which clause of the property breaks, what is needed for it to manifest, and the exact commands you ran with their outcome (existing tests pass with the change; demo fails with the change; demo passes without it).
Leave the worktree with your change applied. Keep your final answer short: the one-line description of the change and whether all three checks succeeded.

Side findings: if, while exploring, you notice that the UNCHANGED code already violates the property in some situation, do not fix it; describe it in {wt}/SEED/SIDE_FINDINGS.md (what fails, how to reproduce, a small test if that is cheap) and mention it in one line of your final answer.
"""
if earlier:
    text += "\n\nIMPORTANT: choose a DIFFERENT kind of change, in a different function, than these already-used ones:\n" + "\n".join(" - " + e for e in earlier) + "\n"
open(f"/tmp/prompt-{sid}.txt", "w").write(text)
print(wt, len(text))
