#!/usr/bin/env python3
"""Must-fail corpus: applies each mutant of selftest/mutants.json to a scratch copy of /repo (outside /repo and
/verif, removed afterwards), runs the property's check on the copy and requires a VIOLATION whose obligation
contains the expected text. Usage: selftest.py [--prop Cxx] [--id substr]"""
import re, json, os, shutil, subprocess, sys, tempfile
root = os.path.dirname(os.path.dirname(os.path.abspath(__file__)))
args = sys.argv[1:]
prop = args[args.index("--prop")+1] if "--prop" in args else None
only = args[args.index("--id")+1] if "--id" in args else None
muts = json.load(open(os.path.join(root, "selftest", "mutants.json")))
scratch = tempfile.mkdtemp(prefix="gocv-selftest-")
env = dict(os.environ, GOFLAGS="-mod=mod", GOPROXY="off", GOSUMDB="off", GOTOOLCHAIN="local", GOCV_NO_RETRY="1")
bad = 0
try:
    subprocess.run(["rsync", "-a", "--exclude", ".git", "/repo/", scratch + "/"], check=True)
    for m in muts:
        if prop and m["prop"] != prop: continue
        if only and only not in m["id"]: continue
        path = os.path.join(scratch, m["file"])
        src = open(path).read()
        if m["old"] not in src:
            print(f"SELFTEST-ERROR {m['id']}: pattern not found in {m['file']}"); bad += 1; continue
        open(path, "w").write(src.replace(m["old"], m["new"], 1))
        try:
            b = subprocess.run(["go", "build", "./leveldb/..."], cwd=scratch, env=env, capture_output=True, text=True)
            if b.returncode != 0:
                print(f"SELFTEST-ERROR {m['id']}: mutant does not compile: {b.stderr[:200]}"); bad += 1; continue
            r = subprocess.run([os.path.join(root, "bin", "gocv"), "check", "-prop", m["prop"], "-repo", scratch,
                                "-out", os.path.join(scratch, ".gocv-out"), "-findings", os.path.join(root, "known_findings.txt")],
                               capture_output=True, text=True, env=env)
            # property labels ([C01,C04:name]) are scoping, not identity: compare without them
            strip = lambda t: re.sub(r"C\d\d(,C\d\d)*:", "", t)
            hits = [l for l in r.stdout.splitlines() if l.startswith("VIOLATION") and strip(m["expect"]) in strip(l)]
            if hits:
                print(f"killed   {m['id']:50s} {hits[0].split('obligation=')[1][:90]}")
            else:
                bad += 1
                v = [l for l in r.stdout.splitlines() if l.startswith("VIOLATION")]
                print(f"SURVIVED {m['id']:50s} expected '{m['expect']}', got {len(v)} other violations: {[x.split('obligation=')[1][:60] for x in v[:3]]}")
        finally:
            open(path, "w").write(src)
finally:
    shutil.rmtree(scratch, ignore_errors=True)
print("selftest:", "FAILED" if bad else "ok", f"({bad} problems)")
sys.exit(1 if bad else 0)
