#!/bin/sh
# usage: trypatch.sh <patch.diff> <prop> [binary]  - applies a patch to a scratch copy of /repo's working tree and runs the quick check on it
set -e
P="$1"; PROP="$2"; BIN="${3:-/verif/bin/gocv}"
D=$(mktemp -d /tmp/trypatch.XXXXXX)
rsync -a --exclude .git /repo/ "$D/"
(cd "$D" && patch -p1 -s < "$P")
cd /verif
GOFLAGS=-mod=mod GOPROXY=off GOSUMDB=off GOTOOLCHAIN=local "$BIN" check -prop "$PROP" -tier quick -repo "$D" -out "$D.out" 2>&1 | grep -E "^property=|VIOLATION" | cut -c1-330 || true
rm -rf "$D" "$D.out"
