#!/usr/bin/env python3
"""Must-pass corpus: applies each behaviour-preserving edit of selftest/harmless.json to a scratch copy of /repo
(outside /repo and /verif, removed afterwards) and requires the checks of the listed properties to stay silent
(exit 0, no VIOLATION line). Usage: harmless.py [--id substr]"""
import json, os, shutil, subprocess, sys, tempfile
root = os.path.dirname(os.path.dirname(os.path.abspath(__file__)))
args = sys.argv[1:]
only = args[args.index("--id")+1] if "--id" in args else None
edits = json.load(open(os.path.join(root, "selftest", "harmless.json")))
scratch = tempfile.mkdtemp(prefix="gocv-harmless-")
env = dict(os.environ, GOFLAGS="-mod=mod", GOPROXY="off", GOSUMDB="off", GOTOOLCHAIN="local")
bad = 0
try:
    subprocess.run(["rsync", "-a", "--exclude", ".git", "/repo/", scratch + "/"], check=True)
    for e in edits:
        if only and only not in e["id"]: continue
        path = os.path.join(scratch, e["file"])
        src = open(path).read()
        if e["old"] not in src:
            print(f"HARMLESS-ERROR {e['id']}: pattern not found in {e['file']}"); bad += 1; continue
        open(path, "w").write(src.replace(e["old"], e["new"], 1))
        try:
            b = subprocess.run(["go", "build", "./leveldb/..."], cwd=scratch, env=env, capture_output=True, text=True)
            if b.returncode != 0:
                print(f"HARMLESS-ERROR {e['id']}: edit does not compile: {b.stderr[:200]}"); bad += 1; continue
            for prop in e["props"]:
                r = subprocess.run([os.path.join(root, "bin", "gocv"), "check", "-prop", prop, "-repo", scratch,
                                    "-out", os.path.join(scratch, ".gocv-out"), "-findings", os.path.join(root, "known_findings.txt")],
                                   capture_output=True, text=True, env=env)
                v = [l for l in r.stdout.splitlines() if l.startswith("VIOLATION")]
                if r.returncode != 0 or v:
                    bad += 1
                    print(f"ALARM    {e['id']:40s} {prop}: {[x.split('obligation=')[1][:90] for x in v[:3]]}")
                else:
                    print(f"silent   {e['id']:40s} {prop}")
        finally:
            open(path, "w").write(src)
finally:
    shutil.rmtree(scratch, ignore_errors=True)
print("harmless:", "FAILED" if bad else "ok", f"({bad} problems)")
sys.exit(1 if bad else 0)
