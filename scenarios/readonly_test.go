package scenarios

import (
	"fmt"
	"sync"
	"testing"

	"github.com/syndtr/goleveldb/leveldb"
	"github.com/syndtr/goleveldb/leveldb/opt"
	"github.com/syndtr/goleveldb/leveldb/storage"
)

// recStorage records every mutating storage call.
type recStorage struct {
	storage.Storage
	mu  sync.Mutex
	ops []string
}

func (s *recStorage) rec(f string, a ...interface{}) {
	s.mu.Lock()
	s.ops = append(s.ops, fmt.Sprintf(f, a...))
	s.mu.Unlock()
}
func (s *recStorage) taken() []string {
	s.mu.Lock()
	defer s.mu.Unlock()
	out := append([]string(nil), s.ops...)
	s.ops = nil
	return out
}
func (s *recStorage) SetMeta(fd storage.FileDesc) error { s.rec("SetMeta(%v)", fd); return s.Storage.SetMeta(fd) }
func (s *recStorage) Create(fd storage.FileDesc) (storage.Writer, error) {
	s.rec("Create(%v)", fd)
	return s.Storage.Create(fd)
}
func (s *recStorage) Remove(fd storage.FileDesc) error { s.rec("Remove(%v)", fd); return s.Storage.Remove(fd) }
func (s *recStorage) Rename(a, b storage.FileDesc) error {
	s.rec("Rename(%v,%v)", a, b)
	return s.Storage.Rename(a, b)
}

// obligation leveldb.Open:post(C18:read-only-open-never-creates-a-db) / leveldb.openDB:post(C18:read-only-open-mutates-nothing...)
// A read-only open creates, renames, removes nothing and does not move CURRENT: neither when there is no DB to open
// (it must fail) nor when there is one with a journal to replay.
func TestReadOnlyOpenMutatesNothing(t *testing.T) {
	st := &recStorage{Storage: storage.NewMemStorage()}
	db, err := leveldb.Open(st, &opt.Options{ReadOnly: true})
	if db != nil {
		db.Close()
	}
	if ops := st.taken(); len(ops) > 0 {
		t.Fatalf("read-only open of an empty storage mutated it: %v (error %v)", ops, err)
	}
	if err == nil {
		t.Fatalf("read-only open of an empty storage succeeded")
	}
	db, err = leveldb.Open(st, nil)
	must(t, err)
	for i := 0; i < 100; i++ {
		must(t, db.Put([]byte(fmt.Sprintf("k%03d", i)), []byte("v"), nil))
	}
	must(t, db.Close())
	st.taken()
	db, err = leveldb.Open(st, &opt.Options{ReadOnly: true})
	must(t, err)
	if v, err := db.Get([]byte("k042"), nil); err != nil || string(v) != "v" {
		t.Fatalf("read-only DB does not serve reads: %q %v", v, err)
	}
	if err := db.Put([]byte("x"), []byte("y"), nil); err == nil {
		t.Fatalf("read-only DB accepted a write")
	}
	must(t, db.Close())
	if ops := st.taken(); len(ops) > 0 {
		t.Fatalf("read-only open of an existing DB mutated the storage: %v", ops)
	}
}
