module scenarios

go 1.23

require github.com/syndtr/goleveldb v0.0.0

require github.com/golang/snappy v0.0.4 // indirect

replace github.com/syndtr/goleveldb => /repo
