package scenarios

import (
	"github.com/syndtr/goleveldb/leveldb"
	"errors"
	"sync"
	"testing"

	lerrors "github.com/syndtr/goleveldb/leveldb/errors"
	"github.com/syndtr/goleveldb/leveldb/storage"
	"github.com/syndtr/goleveldb/leveldb/util"
)

// scnBlockFaultStorage wraps a storage.Storage; reads of the first data block
// (file offset 0) of one chosen table file can be made to fail, or to return
// the data with one byte flipped.
type scnBlockFaultStorage struct {
	storage.Storage

	mu   sync.Mutex
	num  int64 // table file number the fault applies to
	mode int   // 0: no fault, 1: ReadAt returns an error, 2: ReadAt returns damaged data
	hits int   // how many times the fault fired
}

var errSeedInjected = errors.New("seed: injected table read error")

func (s *scnBlockFaultStorage) set(num int64, mode int) {
	s.mu.Lock()
	s.num, s.mode = num, mode
	s.mu.Unlock()
}

func (s *scnBlockFaultStorage) Open(fd storage.FileDesc) (storage.Reader, error) {
	r, err := s.Storage.Open(fd)
	if err != nil || fd.Type != storage.TypeTable {
		return r, err
	}
	return &scnBlockFaultReader{Reader: r, s: s, num: fd.Num}, nil
}

type scnBlockFaultReader struct {
	storage.Reader
	s   *scnBlockFaultStorage
	num int64
}

func (r *scnBlockFaultReader) ReadAt(p []byte, off int64) (int, error) {
	r.s.mu.Lock()
	mode := 0
	if off == 0 && r.num == r.s.num {
		mode = r.s.mode
		if mode != 0 {
			r.s.hits++
		}
	}
	r.s.mu.Unlock()

	if mode == 1 {
		return 0, errSeedInjected
	}
	n, err := r.Reader.ReadAt(p, off)
	if mode == 2 && n > 3 {
		p[3] ^= 0x40
	}
	return n, err
}

// An acknowledged overwrite of a key lives in a level-0 table, the value it
// replaced lives in a deeper table. While the data block of the level-0 table
// cannot be read (I/O error) or is damaged (checksum mismatch, checksums are on
// by default), Get must report an error; it must never answer with the old,
// overwritten value or with "not found".
// obligation table.(*Reader).find:assert(C08,C13:failed-data-block-step-is-explained-before-answering ...)
func TestTableBlockReadErrorDoesNotHideAWrite(t *testing.T) {
	stor := &scnBlockFaultStorage{Storage: storage.NewMemStorage()}

	db, err := leveldb.Open(stor, nil)
	if err != nil {
		t.Fatal(err)
	}
	if err := db.Put([]byte("k"), []byte("old"), nil); err != nil {
		t.Fatal(err)
	}
	// Flush the memdb and push the table down.
	if err := db.CompactRange(util.Range{}); err != nil {
		t.Fatal(err)
	}
	if err := db.Put([]byte("k"), []byte("new"), nil); err != nil {
		t.Fatal(err)
	}
	if err := db.Close(); err != nil {
		t.Fatal(err)
	}

	// Reopen: journal recovery writes "new" into a fresh level-0 table.
	db, err = leveldb.Open(stor, nil)
	if err != nil {
		t.Fatal(err)
	}
	defer db.Close()

	fds, err := stor.List(storage.TypeTable)
	if err != nil {
		t.Fatal(err)
	}
	if len(fds) != 2 {
		t.Fatalf("want 2 table files, got %d (%v)", len(fds), fds)
	}
	newest := fds[0].Num
	for _, fd := range fds {
		if fd.Num > newest {
			newest = fd.Num
		}
	}

	// 1. The read of the data block fails.
	stor.set(newest, 1)
	v, err := db.Get([]byte("k"), nil)
	t.Logf("read error injected: Get -> %q, %v (fault fired %d times)", v, err, stor.hits)
	if stor.hits == 0 {
		t.Fatal("the injected fault never fired; the demo does not exercise the intended path")
	}
	if err == nil {
		t.Errorf("failed table read: Get returned %q without error, want an error", v)
	} else if err == leveldb.ErrNotFound {
		t.Errorf("failed table read: Get hid the acknowledged write (leveldb.ErrNotFound), want the read error")
	}

	// 2. The data block is damaged, checksum verification is on (default).
	hits := stor.hits
	stor.set(newest, 2)
	v, err = db.Get([]byte("k"), nil)
	t.Logf("damaged block: Get -> %q, %v", v, err)
	if stor.hits == hits {
		t.Fatal("the injected damage never fired")
	}
	if err == nil {
		t.Errorf("damaged table block: Get returned %q without error, want a corruption error", v)
	} else if !lerrors.IsCorrupted(err) {
		t.Errorf("damaged table block: Get returned %v, want a corruption error", err)
	}

	// 3. Without fault the acknowledged write is served.
	stor.set(0, 0)
	v, err = db.Get([]byte("k"), nil)
	if err != nil || string(v) != "new" {
		t.Errorf("no fault: Get -> %q, %v; want \"new\"", v, err)
	}
}
