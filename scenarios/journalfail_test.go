package scenarios

import (
	"bytes"
	"errors"
	"sync/atomic"
	"testing"

	"github.com/syndtr/goleveldb/leveldb"
	"github.com/syndtr/goleveldb/leveldb/storage"
)

// jwFaultStor wraps a storage.Storage and makes the next N Write calls on
// journal (write-ahead log) files fail, writing nothing.
type jwFaultStor struct {
	storage.Storage
	failJournalWrites int32
}

type jwFaultWriter struct {
	storage.Writer
	s *jwFaultStor
}

func (w *jwFaultWriter) Write(p []byte) (int, error) {
	for {
		n := atomic.LoadInt32(&w.s.failJournalWrites)
		if n <= 0 {
			break
		}
		if atomic.CompareAndSwapInt32(&w.s.failJournalWrites, n, n-1) {
			return 0, errors.New("injected journal write error")
		}
	}
	return w.Writer.Write(p)
}

func (s *jwFaultStor) Create(fd storage.FileDesc) (storage.Writer, error) {
	w, err := s.Storage.Create(fd)
	if err != nil || fd.Type != storage.TypeJournal {
		return w, err
	}
	return &jwFaultWriter{Writer: w, s: s}, nil
}

// A Put whose journal write fails must not be acknowledged (nil error) and
// then be missing after a reopen.
// obligation leveldb.(*DB).writeJournal:post(C01,C04,C08:a-failed-journal-flush-or-sync-is-reported)
func TestFailedJournalWriteIsReported(t *testing.T) {
	stor := &jwFaultStor{Storage: storage.NewMemStorage()}

	db, err := leveldb.Open(stor, nil)
	if err != nil {
		t.Fatalf("open: %v", err)
	}
	if err := db.Put([]byte("k1"), []byte("v1"), nil); err != nil {
		t.Fatalf("put k1: %v", err)
	}

	// The next write to the journal file fails once.
	atomic.StoreInt32(&stor.failJournalWrites, 1)
	putErr := db.Put([]byte("k2"), []byte("v2"), nil)
	t.Logf("put k2 with failing journal write: err=%v", putErr)
	if atomic.LoadInt32(&stor.failJournalWrites) != 0 {
		t.Fatalf("fault was not consumed")
	}

	if putErr == nil {
		// Acknowledged: must be readable while running.
		if v, err := db.Get([]byte("k2"), nil); err != nil || !bytes.Equal(v, []byte("v2")) {
			t.Errorf("running: acknowledged k2: got %q, %v", v, err)
		}
	}

	if err := db.Close(); err != nil {
		t.Fatalf("close: %v", err)
	}
	db, err = leveldb.Open(stor, nil)
	if err != nil {
		t.Fatalf("reopen: %v", err)
	}
	defer db.Close()

	if v, err := db.Get([]byte("k1"), nil); err != nil || !bytes.Equal(v, []byte("v1")) {
		t.Errorf("after reopen: acknowledged k1: got %q, %v", v, err)
	}
	v, err := db.Get([]byte("k2"), nil)
	switch {
	case putErr == nil:
		// The write was reported as successful: it must survive the reopen.
		if err != nil || !bytes.Equal(v, []byte("v2")) {
			t.Errorf("after reopen: k2 was acknowledged (Put returned nil) but is lost: got %q, %v", v, err)
		}
	case err == leveldb.ErrNotFound:
		// Failed write wholly absent: fine.
	case err == nil && bytes.Equal(v, []byte("v2")):
		// Failed write wholly applied: fine.
	default:
		t.Errorf("after reopen: k2 (failed write): got %q, %v", v, err)
	}
}
