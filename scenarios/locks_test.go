package scenarios

import (
	"bytes"
	"sync/atomic"
	"testing"
	"time"

	"github.com/syndtr/goleveldb/leveldb"
	"github.com/syndtr/goleveldb/leveldb/opt"
	"github.com/syndtr/goleveldb/leveldb/storage"
)

// obligation leveldb.(*Transaction).Commit:balanced(leveldb.DB.compCommitLk)#ret 5
// A Commit whose manifest sync keeps failing gives up after three tries; it must not keep the commit lock.
func TestCommitErrorReleasesCommitLock(t *testing.T) {
	fs := newFaultStorage()
	db, err := leveldb.Open(fs, &opt.Options{})
	must(t, err)
	tr, err := db.OpenTransaction()
	must(t, err)
	must(t, tr.Put([]byte("k"), []byte("v"), nil))
	atomic.StoreInt32(fs.failSync[storage.TypeManifest], -1)
	if err := tr.Commit(); err == nil {
		t.Skip("fault did not hit the manifest sync")
	}
	atomic.StoreInt32(fs.failSync[storage.TypeManifest], 0)
	if !within(10*time.Second, func() { _ = tr.Commit() }) {
		t.Fatalf("second Commit hangs: the first one returned its error with the commit lock still held")
	}
}

// obligation leveldb.(*DB).Write:balanced(leveldb.DB.writeLockC)#ret 4
// A batch larger than the write buffer goes through a transaction; if its commit fails the write lock must be
// given back (the transaction discarded), otherwise every later write blocks.
func TestLargeBatchCommitErrorReleasesWriteLock(t *testing.T) {
	fs := newFaultStorage()
	db, err := leveldb.Open(fs, &opt.Options{WriteBuffer: 4096})
	must(t, err)
	b := new(leveldb.Batch)
	b.Put([]byte("big"), bytes.Repeat([]byte{'x'}, 8192))
	atomic.StoreInt32(fs.failSync[storage.TypeManifest], -1)
	if err := db.Write(b, nil); err == nil {
		t.Skip("fault did not hit the manifest sync")
	}
	atomic.StoreInt32(fs.failSync[storage.TypeManifest], 0)
	if !within(10*time.Second, func() { _ = db.Put([]byte("k"), []byte("v"), nil) }) {
		t.Fatalf("Put after a failed large-batch Write hangs: the write lock was never released")
	}
}

// obligation leveldb.(*DB).OpenTransaction:post(released-on-error)#ret 4 / #ret 5
// OpenTransaction that fails while rotating the memdb must release the write lock it took.
func TestOpenTransactionErrorReleasesWriteLock(t *testing.T) {
	fs := newFaultStorage()
	db, err := leveldb.Open(fs, &opt.Options{})
	must(t, err)
	must(t, db.Put([]byte("a"), []byte("1"), nil)) // non-empty memdb, so OpenTransaction rotates it
	atomic.StoreInt32(fs.failCreate[storage.TypeJournal], -1)
	if _, err := db.OpenTransaction(); err == nil {
		t.Skip("fault did not hit the journal creation")
	}
	atomic.StoreInt32(fs.failCreate[storage.TypeJournal], 0)
	if !within(10*time.Second, func() { _ = db.Put([]byte("k"), []byte("v"), nil) }) {
		t.Fatalf("Put after a failed OpenTransaction hangs: the write lock was never released")
	}
}
