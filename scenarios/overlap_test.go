package scenarios

import (
	"bytes"
	"fmt"
	"testing"

	"github.com/syndtr/goleveldb/leveldb"
	"github.com/syndtr/goleveldb/leveldb/opt"
	"github.com/syndtr/goleveldb/leveldb/storage"
	"github.com/syndtr/goleveldb/leveldb/util"
)

// reverse bytewise order: a legal total order on keys that disagrees with bytes.Compare everywhere
type reverseComparer struct{}

func (reverseComparer) Compare(a, b []byte) int          { return bytes.Compare(b, a) }
func (reverseComparer) Name() string                     { return "scenarios.reverse" }
func (reverseComparer) Separator(dst, a, b []byte) []byte { return nil }
func (reverseComparer) Successor(dst, b []byte) []byte    { return nil }

// obligation leveldb.(tFiles).getOverlaps:post(C01,C06:overlap-search-exact)
// The overlap search of a sorted level must order user keys with the configured comparer. If it orders them
// bytewise, then under another comparer compactions pick the wrong input tables, tables of a level stop being
// disjoint/sorted and reads return stale values or miss keys.
func TestOverlapSearchUsesConfiguredComparer(t *testing.T) {
	stor := storage.NewMemStorage()
	o := &opt.Options{Comparer: reverseComparer{}, WriteBuffer: 2048, DisableLargeBatchTransaction: true}
	db, err := leveldb.Open(stor, o)
	must(t, err)
	defer db.Close()
	const n, rounds = 300, 6
	for r := 0; r < rounds; r++ {
		for i := 0; i < n; i++ {
			must(t, db.Put([]byte(fmt.Sprintf("key%05d", i)), []byte(fmt.Sprintf("r%d-%d", r, i)), nil))
		}
		must(t, db.CompactRange(util.Range{}))
	}
	bad := 0
	for i := 0; i < n; i++ {
		v, err := db.Get([]byte(fmt.Sprintf("key%05d", i)), nil)
		if err != nil || string(v) != fmt.Sprintf("r%d-%d", rounds-1, i) {
			if bad == 0 {
				t.Logf("first wrong read: key%05d -> %q, %v", i, v, err)
			}
			bad++
		}
	}
	if bad > 0 {
		t.Fatalf("%d of %d keys do not return their latest value under a non-bytewise comparer", bad, n)
	}
}
