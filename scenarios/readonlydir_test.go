package scenarios

import (
	"github.com/syndtr/goleveldb/leveldb"
	"crypto/sha256"
	"fmt"
	"io/ioutil"
	"os"
	"path/filepath"
	"reflect"
	"testing"

	"github.com/syndtr/goleveldb/leveldb/opt"
	"github.com/syndtr/goleveldb/leveldb/util"
)

// scnDirDemoDirState returns name -> "size:sha256" for every file below dir.
func scnDirDemoDirState(t *testing.T, dir string) map[string]string {
	state := make(map[string]string)
	err := filepath.Walk(dir, func(p string, fi os.FileInfo, err error) error {
		if err != nil {
			return err
		}
		if fi.IsDir() {
			return nil
		}
		b, err := ioutil.ReadFile(p)
		if err != nil {
			return err
		}
		rel, _ := filepath.Rel(dir, p)
		state[rel] = fmt.Sprintf("%d:%x", len(b), sha256.Sum256(b))
		return nil
	})
	if err != nil {
		t.Fatalf("walk %s: %v", dir, err)
	}
	return state
}

// A DB opened read-only through OpenFile must not create or modify any file
// of the DB directory, must still serve the data (including the data that is
// only in the journal) and must reject writes with leveldb.ErrReadOnly.
// obligation leveldb.OpenFile:assert(C18:read-only-db-opens-its-directory-read-only ...)
func TestReadOnlyOpenFileTouchesNothingInTheDirectory(t *testing.T) {
	tmp, err := ioutil.TempDir("", "seed-c18d-")
	if err != nil {
		t.Fatal(err)
	}
	defer os.RemoveAll(tmp)
	dir := filepath.Join(tmp, "db")

	// Populate: one key flushed to a table, one key only in the journal.
	db, err := leveldb.OpenFile(dir, nil)
	if err != nil {
		t.Fatalf("OpenFile: %v", err)
	}
	if err := db.Put([]byte("k1"), []byte("v1"), nil); err != nil {
		t.Fatalf("Put k1: %v", err)
	}
	if err := db.CompactRange(util.Range{}); err != nil {
		t.Fatalf("CompactRange: %v", err)
	}
	if err := db.Put([]byte("k2"), []byte("v2"), &opt.WriteOptions{Sync: true}); err != nil {
		t.Fatalf("Put k2: %v", err)
	}
	if err := db.Close(); err != nil {
		t.Fatalf("Close: %v", err)
	}

	before := scnDirDemoDirState(t, dir)

	// Read-only open of the existing DB.
	rdb, err := leveldb.OpenFile(dir, &opt.Options{ReadOnly: true})
	if err != nil {
		t.Fatalf("read-only OpenFile: %v", err)
	}
	for k, v := range map[string]string{"k1": "v1", "k2": "v2"} {
		got, err := rdb.Get([]byte(k), nil)
		if err != nil || string(got) != v {
			t.Errorf("read-only Get(%q) = %q, %v; want %q", k, got, err, v)
		}
	}
	if err := rdb.Put([]byte("k3"), []byte("v3"), nil); err != leveldb.ErrReadOnly {
		t.Errorf("read-only Put: got %v, want %v", err, leveldb.ErrReadOnly)
	}
	if err := rdb.Close(); err != nil {
		t.Errorf("read-only Close: %v", err)
	}
	if err := rdb.Close(); err != leveldb.ErrClosed {
		t.Errorf("second Close: got %v, want %v", err, leveldb.ErrClosed)
	}

	after := scnDirDemoDirState(t, dir)
	if !reflect.DeepEqual(before, after) {
		for name, st := range after {
			if old, ok := before[name]; !ok {
				t.Errorf("read-only DB created file %s", name)
			} else if old != st {
				t.Errorf("read-only DB modified file %s (%s -> %s)", name, old, st)
			}
		}
		for name := range before {
			if _, ok := after[name]; !ok {
				t.Errorf("read-only DB removed file %s", name)
			}
		}
	}

	// Read-only open of a DB that does not exist: must fail and create nothing.
	missing := filepath.Join(tmp, "missing")
	if mdb, err := leveldb.OpenFile(missing, &opt.Options{ReadOnly: true}); err == nil {
		mdb.Close()
		t.Errorf("read-only OpenFile of a missing DB succeeded")
	}
	if _, err := os.Stat(missing); !os.IsNotExist(err) {
		names, _ := ioutil.ReadDir(missing)
		var list []string
		for _, fi := range names {
			list = append(list, fi.Name())
		}
		t.Errorf("read-only OpenFile of a missing DB created %s containing %v", missing, list)
	}
}
