package scenarios

import (
	"testing"
	"time"

	"github.com/syndtr/goleveldb/leveldb"
	"github.com/syndtr/goleveldb/leveldb/opt"
	"github.com/syndtr/goleveldb/leveldb/storage"
)

// A writer that waits for the write lock must never be left waiting when the
// DB is in (or enters) a persistent error state: it has to be answered exactly
// once with the persistent error. Here the persistent state is read-only mode
// and the writers are Put/Delete calls issued with NoWriteMerge.
// obligation leveldb.(*DB).putRec:in-reach (anchor "before stmt return err#3": the refusing arm of the non-merging select)
func TestNonMergingWritersAreRefusedInReadOnlyMode(t *testing.T) {
	stor := storage.NewMemStorage()
	db, err := leveldb.Open(stor, &opt.Options{DisableLargeBatchTransaction: true})
	if err != nil {
		t.Fatal(err)
	}
	closed := false
	defer func() {
		if !closed {
			db.Close()
		}
	}()

	// Ordinary writes first, merge and no-merge, must succeed.
	if err := db.Put([]byte("a"), []byte("1"), nil); err != nil {
		t.Fatal(err)
	}
	if err := db.Put([]byte("b"), []byte("2"), &opt.WriteOptions{NoWriteMerge: true}); err != nil {
		t.Fatal(err)
	}

	if err := db.SetReadOnly(); err != nil {
		t.Fatal(err)
	}

	type result struct {
		name string
		err  error
	}
	resC := make(chan result, 8)
	nomerge := &opt.WriteOptions{NoWriteMerge: true}
	writers := map[string]func() error{
		"Put(merge)":      func() error { return db.Put([]byte("c"), []byte("3"), nil) },
		"Put(nomerge)":    func() error { return db.Put([]byte("d"), []byte("4"), nomerge) },
		"Delete(nomerge)": func() error { return db.Delete([]byte("a"), nomerge) },
		"Write(nomerge)": func() error {
			b := new(leveldb.Batch)
			b.Put([]byte("e"), []byte("5"))
			return db.Write(b, nomerge)
		},
	}
	for name, fn := range writers {
		name, fn := name, fn
		go func() { resC <- result{name, fn()} }()
	}

	pending := map[string]bool{}
	for name := range writers {
		pending[name] = true
	}
	timeout := time.After(3 * time.Second)
wait:
	for len(pending) > 0 {
		select {
		case r := <-resC:
			delete(pending, r.name)
			if r.err != leveldb.ErrReadOnly {
				t.Errorf("%s: got %v, want %v", r.name, r.err, leveldb.ErrReadOnly)
			}
		case <-timeout:
			break wait
		}
	}
	for name := range pending {
		t.Errorf("%s: writer left waiting in read-only (persistent error) state", name)
	}

	// Close wakes any writer that is still stuck, so that the test does not
	// leak goroutines.
	closed = true
	db.Close()
	for len(pending) > 0 {
		select {
		case r := <-resC:
			delete(pending, r.name)
			t.Logf("%s: only answered after Close: %v", r.name, r.err)
		case <-time.After(3 * time.Second):
			t.Fatalf("writers still waiting after Close: %v", pending)
		}
	}
}
