package scenarios

import (
	"bytes"
	"fmt"
	"sort"
	"testing"

	"github.com/syndtr/goleveldb/leveldb"
	"github.com/syndtr/goleveldb/leveldb/opt"
	"github.com/syndtr/goleveldb/leveldb/storage"
	"github.com/syndtr/goleveldb/leveldb/util"
)

// obligation leveldb.(*DB).newRawIterator:assert(C02,C11:every-source-is-restricted-to-the-range ...)
// A range-restricted iterator of a transaction that has spilled to tables shows exactly the keys of the range,
// forwards, backwards and after Seek.
func TestTransactionRangeIteratorStaysInRange(t *testing.T) {
	stor := storage.NewMemStorage()
	db, err := leveldb.Open(stor, &opt.Options{
		WriteBuffer:          4 << 10, // small: the transaction spills to tables
		DisableBlockCache:    true,
		BlockSize:            256,
		BlockRestartInterval: 4,
		Compression:          opt.NoCompression,
	})
	if err != nil {
		t.Fatal(err)
	}
	defer db.Close()

	key := func(i int) []byte { return []byte(fmt.Sprintf("k%04d", i)) }
	model := map[string]string{}

	// Some committed data below the transaction.
	for i := 0; i < 400; i += 3 {
		v := fmt.Sprintf("base-%d", i)
		if err := db.Put(key(i), []byte(v), nil); err != nil {
			t.Fatal(err)
		}
		model[string(key(i))] = v
	}

	tr, err := db.OpenTransaction()
	if err != nil {
		t.Fatal(err)
	}
	defer tr.Discard()

	// Enough writes to overflow the transaction's buffer several times, so
	// that most of its entries sit in flushed tables; a mix of new keys,
	// overwrites and deletes.
	pad := bytes.Repeat([]byte("x"), 40)
	for i := 0; i < 400; i++ {
		switch {
		case i%5 == 0:
			if err := tr.Delete(key(i), nil); err != nil {
				t.Fatal(err)
			}
			delete(model, string(key(i)))
		default:
			v := fmt.Sprintf("tr-%d-%s", i, pad)
			if err := tr.Put(key(i), []byte(v), nil); err != nil {
				t.Fatal(err)
			}
			model[string(key(i))] = v
		}
	}
	// Second pass over part of the key space: overwrite / delete again.
	for i := 100; i < 300; i += 7 {
		if i%2 == 0 {
			if err := tr.Delete(key(i), nil); err != nil {
				t.Fatal(err)
			}
			delete(model, string(key(i)))
		} else {
			v := fmt.Sprintf("tr2-%d", i)
			if err := tr.Put(key(i), []byte(v), nil); err != nil {
				t.Fatal(err)
			}
			model[string(key(i))] = v
		}
	}

	for _, r := range []*util.Range{
		nil,
		{Start: key(150), Limit: key(160)},
		{Start: key(151), Limit: key(250)},
		{Start: nil, Limit: key(20)},
		{Start: key(390), Limit: nil},
		{Start: []byte("k0150x"), Limit: []byte("k0155x")},
	} {
		var want []string
		for k := range model {
			if r != nil {
				if r.Start != nil && k < string(r.Start) {
					continue
				}
				if r.Limit != nil && k >= string(r.Limit) {
					continue
				}
			}
			want = append(want, k)
		}
		sort.Strings(want)
		name := "nil"
		if r != nil {
			name = fmt.Sprintf("[%q,%q)", r.Start, r.Limit)
		}

		// Forward walk.
		it := tr.NewIterator(r, nil)
		n := 0
		for ok := it.First(); ok; ok = it.Next() {
			if n >= len(want) {
				t.Errorf("range %s: forward walk: extra key %q", name, it.Key())
				break
			}
			if string(it.Key()) != want[n] || string(it.Value()) != model[want[n]] {
				t.Errorf("range %s: forward walk pos %d: got %q->%q want %q->%q", name, n, it.Key(), it.Value(), want[n], model[want[n]])
				break
			}
			n++
		}
		if n < len(want) && !t.Failed() {
			t.Errorf("range %s: forward walk stopped after %d of %d keys", name, n, len(want))
		}

		// Backward walk.
		n = len(want) - 1
		for ok := it.Last(); ok; ok = it.Prev() {
			if n < 0 {
				t.Errorf("range %s: backward walk: extra key %q", name, it.Key())
				break
			}
			if string(it.Key()) != want[n] || string(it.Value()) != model[want[n]] {
				t.Errorf("range %s: backward walk pos %d: got %q->%q want %q->%q", name, n, it.Key(), it.Value(), want[n], model[want[n]])
				break
			}
			n--
		}

		// Seek below Start must land on the first key of the range, Seek at
		// or above Limit must fail.
		if r != nil && r.Start != nil {
			ok := it.Seek([]byte("k"))
			if len(want) == 0 {
				if ok {
					t.Errorf("range %s: Seek below Start landed on %q, want nothing", name, it.Key())
				}
			} else if !ok || string(it.Key()) != want[0] {
				t.Errorf("range %s: Seek below Start landed on %q (ok=%v), want %q", name, it.Key(), ok, want[0])
			}
		}
		if r != nil && r.Limit != nil {
			if it.Seek(r.Limit) {
				t.Errorf("range %s: Seek(Limit) landed on %q, want nothing", name, it.Key())
			}
		}
		if err := it.Error(); err != nil {
			t.Errorf("range %s: iterator error: %v", name, err)
		}
		it.Release()
	}
}
