package scenarios

import (
	"github.com/syndtr/goleveldb/leveldb"
	"fmt"
	"runtime"
	"testing"
	"time"

	"github.com/syndtr/goleveldb/leveldb/opt"
	"github.com/syndtr/goleveldb/leveldb/storage"
)

// With WriteL0SlowdownTrigger at or below CompactionL0Trigger, level-0 can
// legitimately hold "slowdown" many tables while no compaction is due. A Put
// must then be delayed once (1ms) and complete; it must not wait for level-0
// to shrink, because nothing is ever going to shrink it.
// obligation leveldb.(*DB).flush$1:post(C09:a-retry-without-waiting-for-a-compaction-happens-only-once)
func TestPutReturnsWhenLevel0SitsAtTheSlowdownTrigger(t *testing.T) {
	o := &opt.Options{
		CompactionL0Trigger:    8,
		WriteL0SlowdownTrigger: 2,
		WriteL0PauseTrigger:    64,
	}
	db, err := leveldb.Open(storage.NewMemStorage(), o)
	if err != nil {
		t.Fatal(err)
	}

	// Two committed transactions put two tables at level-0 (below the
	// compaction trigger, so background compaction leaves them alone).
	for i := 0; i < 2; i++ {
		tr, err := db.OpenTransaction()
		if err != nil {
			t.Fatal(err)
		}
		if err := tr.Put([]byte(fmt.Sprintf("k%d", i)), []byte("v"), nil); err != nil {
			t.Fatal(err)
		}
		if err := tr.Commit(); err != nil {
			t.Fatal(err)
		}
	}
	if v, err := db.GetProperty("leveldb.num-files-at-level0"); err != nil || v != "2" {
		t.Fatalf("setup: want 2 level-0 tables, got %q (%v)", v, err)
	}

	putDone := make(chan error, 1)
	go func() { putDone <- db.Put([]byte("x"), []byte("y"), nil) }()
	select {
	case err := <-putDone:
		if err != nil {
			t.Fatalf("Put: %v", err)
		}
	case <-time.After(5 * time.Second):
		buf := make([]byte, 1<<16)
		buf = buf[:runtime.Stack(buf, true)]
		t.Errorf("Put did not return within 5s\n%s", buf)
	}

	// Close must return too (it needs the write lock the stuck Put holds).
	closeDone := make(chan error, 1)
	go func() { closeDone <- db.Close() }()
	select {
	case <-closeDone:
	case <-time.After(5 * time.Second):
		t.Fatalf("Close did not return within 5s")
	}
}
