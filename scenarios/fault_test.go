package scenarios

// Scenario drivers: replays of path-only counterexamples (lock leaks, lost writes) against the real code in
// /repo, through a fault-injecting storage. A scenario FAILS when the real code shows the violation.

import (
	"errors"
	"sync"
	"sync/atomic"
	"testing"
	"time"

	"github.com/syndtr/goleveldb/leveldb/storage"
)

var errInjected = errors.New("injected fault")

// faultStorage wraps a storage and fails selected operations while the corresponding flag is set.
type faultStorage struct {
	storage.Storage
	failSync   map[storage.FileType]*int32 // >0: fail that many Syncs (or forever if < 0)
	failCreate map[storage.FileType]*int32
	mu         sync.Mutex
	ops        []string
}

func newFaultStorage() *faultStorage {
	fs := &faultStorage{Storage: storage.NewMemStorage(), failSync: map[storage.FileType]*int32{}, failCreate: map[storage.FileType]*int32{}}
	for _, t := range []storage.FileType{storage.TypeManifest, storage.TypeJournal, storage.TypeTable, storage.TypeTemp} {
		fs.failSync[t] = new(int32)
		fs.failCreate[t] = new(int32)
	}
	return fs
}

func take(c *int32) bool {
	for {
		v := atomic.LoadInt32(c)
		if v == 0 {
			return false
		}
		if v < 0 {
			return true
		}
		if atomic.CompareAndSwapInt32(c, v, v-1) {
			return true
		}
	}
}

func (fs *faultStorage) Create(fd storage.FileDesc) (storage.Writer, error) {
	if take(fs.failCreate[fd.Type]) {
		return nil, errInjected
	}
	w, err := fs.Storage.Create(fd)
	if err != nil {
		return nil, err
	}
	return &faultWriter{Writer: w, fs: fs, fd: fd}, nil
}

type faultWriter struct {
	storage.Writer
	fs *faultStorage
	fd storage.FileDesc
}

func (w *faultWriter) Sync() error {
	if take(w.fs.failSync[w.fd.Type]) {
		return errInjected
	}
	return w.Writer.Sync()
}

// within runs f and reports whether it finished before the deadline.
func within(d time.Duration, f func()) bool {
	done := make(chan struct{})
	go func() { f(); close(done) }()
	select {
	case <-done:
		return true
	case <-time.After(d):
		return false
	}
}

func must(t *testing.T, err error) {
	t.Helper()
	if err != nil {
		t.Fatal(err)
	}
}
