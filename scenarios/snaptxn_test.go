package scenarios

import (
	"bytes"
	"testing"

	"github.com/syndtr/goleveldb/leveldb"
	"github.com/syndtr/goleveldb/leveldb/opt"
	"github.com/syndtr/goleveldb/leveldb/storage"
	"github.com/syndtr/goleveldb/leveldb/util"
)

// A snapshot taken right before a transaction (or right before a batch that is
// large enough to be routed through a transaction by DB.Write) must not see
// anything the transaction writes.
// obligation leveldb.(*Transaction).put:assert(C01,C03,C11:a-record-takes-the-next-unused-sequence-number
func TestSnapshotTakenBeforeATransactionDoesNotSeeIt(t *testing.T) {
	stor := storage.NewMemStorage()
	defer stor.Close()
	db, err := leveldb.Open(stor, &opt.Options{WriteBuffer: 64 * opt.KiB})
	if err != nil {
		t.Fatal(err)
	}
	defer db.Close()

	must := func(err error) { // (shadows the package helper on purpose: same meaning, one argument)
		t.Helper()
		if err != nil {
			t.Fatal(err)
		}
	}

	must(db.Put([]byte("a"), []byte("a1"), nil))
	must(db.Put([]byte("k"), []byte("old"), nil))
	must(db.Put([]byte("z"), []byte("z1"), nil))

	// Frozen view + copy of the model at creation.
	snap, err := db.GetSnapshot()
	must(err)
	defer snap.Release()
	model := map[string]string{"a": "a1", "k": "old", "z": "z1"}

	check := func(stage string) {
		t.Helper()
		for _, k := range []string{"a", "k", "m", "n", "z"} {
			want, present := model[k]
			got, err := snap.Get([]byte(k), nil)
			switch {
			case present && err != nil:
				t.Errorf("%s: snap.Get(%q): %v, want %q", stage, k, err, want)
			case present && string(got) != want:
				t.Errorf("%s: snap.Get(%q) = %q, want %q", stage, k, got, want)
			case !present && err != leveldb.ErrNotFound:
				t.Errorf("%s: snap.Get(%q) = %q, %v; want leveldb.ErrNotFound (key written after the snapshot)", stage, k, got, err)
			}
			has, err := snap.Has([]byte(k), nil)
			if err != nil || has != present {
				t.Errorf("%s: snap.Has(%q) = %v, %v; want %v", stage, k, has, err, present)
			}
		}
		it := snap.NewIterator(nil, nil)
		defer it.Release()
		n := 0
		for it.Next() {
			n++
			want, present := model[string(it.Key())]
			if !present {
				t.Errorf("%s: snapshot iterator yields %q=%q, written after the snapshot", stage, it.Key(), it.Value())
			} else if !bytes.Equal(it.Value(), []byte(want)) {
				t.Errorf("%s: snapshot iterator %q=%q, want %q", stage, it.Key(), it.Value(), want)
			}
		}
		must(it.Error())
		if n != len(model) {
			t.Errorf("%s: snapshot iterator yields %d keys, want %d", stage, n, len(model))
		}
	}
	check("before")

	// 1. Explicit transaction: a new key first, then an overwrite, then a delete.
	tr, err := db.OpenTransaction()
	must(err)
	must(tr.Put([]byte("m"), []byte("tx-new"), nil))
	must(tr.Put([]byte("k"), []byte("tx-overwrite"), nil))
	must(tr.Delete([]byte("a"), nil))
	must(tr.Commit())
	check("after transaction")

	// 2. Another snapshot-straddling case: the first record of a large batch
	// (DB.Write routes a batch bigger than the write buffer through a
	// transaction) deletes a key the snapshot holds.
	snap2, err := db.GetSnapshot()
	must(err)
	defer snap2.Release()
	b := new(leveldb.Batch)
	b.Delete([]byte("z"))
	b.Put([]byte("n"), bytes.Repeat([]byte{'x'}, 128*opt.KiB))
	must(db.Write(b, nil))
	check("after large batch")
	if v, err := snap2.Get([]byte("z"), nil); err != nil || string(v) != "z1" {
		t.Errorf("snap2.Get(z) = %q, %v; want z1 (deleted after snap2 was taken)", v, err)
	}
	if has, err := snap2.Has([]byte("n"), nil); err != nil || has {
		t.Errorf("snap2.Has(n) = %v, %v; want false", has, err)
	}

	// The views must stay the same across a full compaction too.
	must(db.CompactRange(util.Range{}))
	check("after compaction")
	if v, err := snap2.Get([]byte("z"), nil); err != nil || string(v) != "z1" {
		t.Errorf("after compaction: snap2.Get(z) = %q, %v; want z1", v, err)
	}

	// Live DB sanity (holds with and without the change).
	for k, want := range map[string]string{"k": "tx-overwrite", "m": "tx-new"} {
		if v, err := db.Get([]byte(k), nil); err != nil || string(v) != want {
			t.Errorf("db.Get(%q) = %q, %v; want %q", k, v, err, want)
		}
	}
	for _, k := range []string{"a", "z"} {
		if _, err := db.Get([]byte(k), nil); err != leveldb.ErrNotFound {
			t.Errorf("db.Get(%q): %v, want leveldb.ErrNotFound", k, err)
		}
	}
}
