package scenarios

import (
	"bytes"
	"sync/atomic"
	"testing"
	"time"

	"github.com/syndtr/goleveldb/leveldb"
	"github.com/syndtr/goleveldb/leveldb/opt"
	"github.com/syndtr/goleveldb/leveldb/storage"
)

// obligation leveldb.(*Transaction).Commit: failed-so-far / publish-only-after-the-last-commit-attempt-succeeded /
// done-only-after-publication
// A transaction whose manifest commits all fail must report the error: a nil result is an acknowledgement, and the
// writes of an acknowledged transaction must be readable now and after reopen.
func TestFailedTransactionCommitIsReported(t *testing.T) {
	fs := newFaultStorage()
	db, err := leveldb.Open(fs, &opt.Options{})
	must(t, err)
	defer db.Close()
	tr, err := db.OpenTransaction()
	must(t, err)
	must(t, tr.Put([]byte("k"), []byte("v"), nil))
	atomic.StoreInt32(fs.failSync[storage.TypeManifest], -1)
	cerr := tr.Commit()
	atomic.StoreInt32(fs.failSync[storage.TypeManifest], 0)
	if cerr != nil {
		tr.Discard()
		return // reported: fine
	}
	if v, err := db.Get([]byte("k"), nil); err != nil || string(v) != "v" {
		t.Fatalf("Commit returned nil although every manifest commit failed, and its write is not readable: %q, %v", v, err)
	}
}

// obligation leveldb.(*DB).Write:post(C11:failed-large-batch-is-discarded)
// A batch routed through a transaction is all-or-nothing: when its commit fails the transaction is discarded,
// its tables are removed and later writers proceed.
func TestFailedLargeBatchLeavesNothingBehind(t *testing.T) {
	fs := newFaultStorage()
	db, err := leveldb.Open(fs, &opt.Options{WriteBuffer: 4096})
	must(t, err)
	b := new(leveldb.Batch)
	b.Put([]byte("big"), bytes.Repeat([]byte{'x'}, 8192))
	atomic.StoreInt32(fs.failSync[storage.TypeManifest], -1)
	werr := db.Write(b, nil)
	atomic.StoreInt32(fs.failSync[storage.TypeManifest], 0)
	if werr == nil {
		t.Skip("fault did not hit the manifest sync")
	}
	if !within(10*time.Second, func() { _ = db.Put([]byte("k"), []byte("v"), nil) }) {
		t.Fatalf("a failed large-batch Write was not discarded: later writers block")
	}
	tables, _ := fs.List(storage.TypeTable)
	if _, err := db.Get([]byte("big"), nil); err == nil {
		t.Fatalf("a failed large-batch Write is visible")
	}
	if len(tables) != 0 {
		t.Fatalf("a failed large-batch Write left %d table file(s) behind", len(tables))
	}
}

// obligation leveldb.(*DB).has / (*DB).get :inv-init(loop 1, C01,C11:no-buffer-knew-the-key-so-far), first-buffer-that-knows-the-key-decides
// A transaction sees its own deletions (still in its private buffer) through Get and Has alike, layered over the
// DB state at its start.
func TestTransactionSeesItsOwnDeletesThroughGetAndHas(t *testing.T) {
	db, err := leveldb.Open(storage.NewMemStorage(), nil)
	must(t, err)
	defer db.Close()
	must(t, db.Put([]byte("k"), []byte("v"), nil))
	must(t, db.Put([]byte("stay"), []byte("v"), nil))
	tr, err := db.OpenTransaction()
	must(t, err)
	defer tr.Discard()
	must(t, tr.Delete([]byte("k"), nil))
	if _, err := tr.Get([]byte("k"), nil); err != leveldb.ErrNotFound {
		t.Fatalf("Get of a key deleted in the transaction: %v", err)
	}
	if ok, err := tr.Has([]byte("k"), nil); err != nil || ok {
		t.Fatalf("Has of a key deleted in the transaction: %v %v", ok, err)
	}
	if ok, err := tr.Has([]byte("stay"), nil); err != nil || !ok {
		t.Fatalf("Has of an untouched key: %v %v", ok, err)
	}
	must(t, tr.Put([]byte("k"), []byte("w"), nil))
	if ok, err := tr.Has([]byte("k"), nil); err != nil || !ok {
		t.Fatalf("Has of a key rewritten in the transaction: %v %v", ok, err)
	}
}
