package scenarios

import (
	"bytes"
	"fmt"
	"os"
	"path/filepath"
	"strings"
	"sync/atomic"
	"testing"
	"time"

	"github.com/syndtr/goleveldb/leveldb"
	"github.com/syndtr/goleveldb/leveldb/opt"
	"github.com/syndtr/goleveldb/leveldb/storage"
)

// obligation leveldb.(*Transaction).Commit: failed-so-far / publish-only-after-the-last-commit-attempt-succeeded /
// done-only-after-publication
// A transaction whose manifest commits all fail must report the error: a nil result is an acknowledgement, and the
// writes of an acknowledged transaction must be readable now and after reopen.
func TestFailedTransactionCommitIsReported(t *testing.T) {
	fs := newFaultStorage()
	db, err := leveldb.Open(fs, &opt.Options{})
	must(t, err)
	defer db.Close()
	tr, err := db.OpenTransaction()
	must(t, err)
	must(t, tr.Put([]byte("k"), []byte("v"), nil))
	atomic.StoreInt32(fs.failSync[storage.TypeManifest], -1)
	cerr := tr.Commit()
	atomic.StoreInt32(fs.failSync[storage.TypeManifest], 0)
	if cerr != nil {
		tr.Discard()
		return // reported: fine
	}
	if v, err := db.Get([]byte("k"), nil); err != nil || string(v) != "v" {
		t.Fatalf("Commit returned nil although every manifest commit failed, and its write is not readable: %q, %v", v, err)
	}
}

// obligation leveldb.(*DB).Write:post(C11:failed-large-batch-is-discarded)
// A batch routed through a transaction is all-or-nothing: when its commit fails the transaction is discarded,
// its tables are removed and later writers proceed.
func TestFailedLargeBatchLeavesNothingBehind(t *testing.T) {
	fs := newFaultStorage()
	db, err := leveldb.Open(fs, &opt.Options{WriteBuffer: 4096})
	must(t, err)
	b := new(leveldb.Batch)
	b.Put([]byte("big"), bytes.Repeat([]byte{'x'}, 8192))
	atomic.StoreInt32(fs.failSync[storage.TypeManifest], -1)
	werr := db.Write(b, nil)
	atomic.StoreInt32(fs.failSync[storage.TypeManifest], 0)
	if werr == nil {
		t.Skip("fault did not hit the manifest sync")
	}
	if !within(10*time.Second, func() { _ = db.Put([]byte("k"), []byte("v"), nil) }) {
		t.Fatalf("a failed large-batch Write was not discarded: later writers block")
	}
	tables, _ := fs.List(storage.TypeTable)
	if _, err := db.Get([]byte("big"), nil); err == nil {
		t.Fatalf("a failed large-batch Write is visible")
	}
	if len(tables) != 0 {
		t.Fatalf("a failed large-batch Write left %d table file(s) behind", len(tables))
	}
}

// obligation leveldb.(*DB).has / (*DB).get :inv-init(loop 1, C01,C11:no-buffer-knew-the-key-so-far), first-buffer-that-knows-the-key-decides
// A transaction sees its own deletions (still in its private buffer) through Get and Has alike, layered over the
// DB state at its start.
func TestTransactionSeesItsOwnDeletesThroughGetAndHas(t *testing.T) {
	db, err := leveldb.Open(storage.NewMemStorage(), nil)
	must(t, err)
	defer db.Close()
	must(t, db.Put([]byte("k"), []byte("v"), nil))
	must(t, db.Put([]byte("stay"), []byte("v"), nil))
	tr, err := db.OpenTransaction()
	must(t, err)
	defer tr.Discard()
	must(t, tr.Delete([]byte("k"), nil))
	if _, err := tr.Get([]byte("k"), nil); err != leveldb.ErrNotFound {
		t.Fatalf("Get of a key deleted in the transaction: %v", err)
	}
	if ok, err := tr.Has([]byte("k"), nil); err != nil || ok {
		t.Fatalf("Has of a key deleted in the transaction: %v %v", ok, err)
	}
	if ok, err := tr.Has([]byte("stay"), nil); err != nil || !ok {
		t.Fatalf("Has of an untouched key: %v %v", ok, err)
	}
	must(t, tr.Put([]byte("k"), []byte("w"), nil))
	if ok, err := tr.Has([]byte("k"), nil); err != nil || !ok {
		t.Fatalf("Has of a key rewritten in the transaction: %v %v", ok, err)
	}
}

// obligation leveldb.(*Transaction).flush:assert(C11:buffer-wiped-in-place-only-when-nobody-else-holds-it ...)
// An iterator obtained from an open transaction must show the transaction's
// writes (layered over the DB state at its start) as of the moment it was
// created, even if the transaction keeps writing and spills its private
// buffer into a table while the iterator is still alive.
func TestTransactionIteratorSurvivesABufferSpill(t *testing.T) {
	stor := storage.NewMemStorage()
	db, err := leveldb.Open(stor, &opt.Options{WriteBuffer: 64 << 10})
	if err != nil {
		t.Fatal(err)
	}
	defer db.Close()

	// State of the DB at the start of the transaction.
	if err := db.Put([]byte("base"), []byte("base-value"), nil); err != nil {
		t.Fatal(err)
	}

	tr, err := db.OpenTransaction()
	if err != nil {
		t.Fatal(err)
	}
	defer tr.Discard()

	const n = 10
	for i := 0; i < n; i++ {
		if err := tr.Put([]byte(fmt.Sprintf("key-%02d", i)), []byte(fmt.Sprintf("val-%02d", i)), nil); err != nil {
			t.Fatal(err)
		}
	}

	// Iterator created, but not yet used, while the writes are still in the
	// transaction's private buffer.
	it := tr.NewIterator(nil, nil)
	defer it.Release()

	// Keep writing until the private buffer has been spilled at least once.
	big := bytes.Repeat([]byte{'x'}, 4<<10)
	// (64 KiB write buffer, 4 KiB values: 64 puts spill it several times)
	for i := 0; i < 64; i++ {
		if err := tr.Put([]byte(fmt.Sprintf("zfill-%04d", i)), big, nil); err != nil {
			t.Fatal(err)
		}
	}

	// Point reads through the transaction still see everything.
	for i := 0; i < n; i++ {
		v, err := tr.Get([]byte(fmt.Sprintf("key-%02d", i)), nil)
		if err != nil || string(v) != fmt.Sprintf("val-%02d", i) {
			t.Fatalf("tr.Get key-%02d: %q, %v", i, v, err)
		}
	}

	// The iterator must show: base + key-00..key-09 (its snapshot of the
	// transaction), nothing else.
	var got []string
	for it.Next() {
		got = append(got, string(it.Key())+"="+string(it.Value()))
	}
	if err := it.Error(); err != nil {
		t.Fatal(err)
	}
	want := []string{"base=base-value"}
	for i := 0; i < n; i++ {
		want = append(want, fmt.Sprintf("key-%02d=val-%02d", i, i))
	}
	if fmt.Sprint(got) != fmt.Sprint(want) {
		t.Fatalf("transaction iterator lost the transaction's writes:\n got  %v\n want %v", got, want)
	}
}

// obligation leveldb.(*tOps).remove$1:assert(C01,C11:blocks-cached-under-a-file-number-are-evicted-before-the-number-is-reused
// The table of a discarded transaction gives its file number back; the next table gets the same number. Blocks are
// cached under the file number, so blocks read through the discarded transaction must not be served for the new
// table: a Get after the second transaction's Commit returns the committed values, never the discarded ones (F12).
func TestDiscardedTransactionsBlocksAreNotServedForTheNextTable(t *testing.T) {
	db, err := leveldb.Open(storage.NewMemStorage(), &opt.Options{WriteBuffer: 64 * opt.KiB, Compression: opt.NoCompression})
	must(t, err)
	defer db.Close()
	keys := []string{"a1", "a2", "a3", "a4"}
	val := func(tag string) []byte { return []byte(strings.Repeat(tag, 30*1024/len(tag))) }

	tr, err := db.OpenTransaction()
	must(t, err)
	for _, k := range keys {
		must(t, tr.Put([]byte(k), val("OLD"), nil))
	}
	// reading through the transaction fills the block cache with blocks of its table(s)
	for _, k := range keys {
		if v, err := tr.Get([]byte(k), nil); err != nil || !bytes.Equal(v, val("OLD")) {
			t.Fatalf("tr.Get %s: %v", k, err)
		}
	}
	tr.Discard()
	for _, k := range keys {
		if _, err := db.Get([]byte(k), nil); err != leveldb.ErrNotFound {
			t.Fatalf("after discard %s: %v", k, err)
		}
	}
	tr, err = db.OpenTransaction()
	must(t, err)
	for _, k := range keys {
		must(t, tr.Put([]byte(k), val("NEW"), nil))
	}
	must(t, tr.Commit())
	for _, k := range keys {
		v, err := db.Get([]byte(k), nil)
		if err != nil {
			t.Errorf("Get %s: %v", k, err)
		} else if !bytes.Equal(v, val("NEW")) {
			t.Errorf("Get %s returns a value of the discarded transaction (starts with %q)", k, v[:6])
		}
	}
}

// obligation leveldb.(*session).flushManifest:post(C08,C11:a-commit-that-reports-an-error-left-no-record-in-the-manifest)#ret 4
// A transaction whose Commit reported an error is discarded (the documented reaction); its tables are removed. The DB
// must open again afterwards and still hold what was acknowledged before (known finding F14: the manifest record of
// the failed commit had been flushed before the failing sync, so the manifest names the removed tables).
func TestDiscardAfterAFailedCommitLeavesAnOpenableDB(t *testing.T) {
	fs := newFaultStorage()
	db, err := leveldb.Open(fs, &opt.Options{WriteBuffer: 64 * opt.KiB})
	must(t, err)
	must(t, db.Put([]byte("acknowledged"), []byte("v"), nil))
	tr, err := db.OpenTransaction()
	must(t, err)
	must(t, tr.Put([]byte("k"), bytes.Repeat([]byte{'x'}, 100), nil))
	atomic.StoreInt32(fs.failSync[storage.TypeManifest], 3)
	cerr := tr.Commit()
	atomic.StoreInt32(fs.failSync[storage.TypeManifest], 0)
	if cerr == nil {
		t.Skip("the injected sync failures did not fail the commit")
	}
	tr.Discard()
	must(t, db.Close())
	db, err = leveldb.Open(fs, nil)
	if err != nil {
		t.Fatalf("reopen after a failed and discarded transaction: %v", err)
	}
	defer db.Close()
	if v, err := db.Get([]byte("acknowledged"), nil); err != nil || string(v) != "v" {
		t.Fatalf("acknowledged write after reopen: %q, %v", v, err)
	}
	if _, err := db.Get([]byte("k"), nil); err != leveldb.ErrNotFound {
		t.Fatalf("write of the discarded transaction after reopen: %v", err)
	}
}

// copyDir copies every file of a DB directory into a fresh directory: the disk as a crash at this instant leaves it
// when everything written so far has reached it.
func copyDir(t *testing.T, src string) string {
	t.Helper()
	dst := t.TempDir()
	ents, err := os.ReadDir(src)
	must(t, err)
	for _, e := range ents {
		if e.Name() == "LOCK" {
			continue
		}
		data, err := os.ReadFile(filepath.Join(src, e.Name()))
		must(t, err)
		must(t, os.WriteFile(filepath.Join(dst, e.Name()), data, 0o644))
	}
	return dst
}

// What remains of known finding F14 after the repair F41: between the failed sync and the shut-down of the session the
// manifest still holds the record of the commit that was reported as failed. A crash in that window, after the
// transaction was discarded (its tables removed), leaves a DB that cannot be opened.
func TestCrashAfterAFailedAndDiscardedCommitLeavesAnOpenableDB(t *testing.T) {
	dir := t.TempDir()
	disk, err := storage.OpenFile(dir, false)
	must(t, err)
	fs := newFaultStorage()
	fs.Storage = disk
	db, err := leveldb.Open(fs, &opt.Options{WriteBuffer: 64 * opt.KiB})
	must(t, err)
	must(t, db.Put([]byte("acknowledged"), []byte("v"), &opt.WriteOptions{Sync: true}))
	tr, err := db.OpenTransaction()
	must(t, err)
	must(t, tr.Put([]byte("k"), bytes.Repeat([]byte{'x'}, 100), nil))
	atomic.StoreInt32(fs.failSync[storage.TypeManifest], 3)
	cerr := tr.Commit()
	atomic.StoreInt32(fs.failSync[storage.TypeManifest], 0)
	if cerr == nil {
		t.Skip("the injected sync failures did not fail the commit")
	}
	tr.Discard()
	imageDir := copyDir(t, dir) // the crash
	defer db.Close()
	image, err := storage.OpenFile(imageDir, false)
	must(t, err)
	defer image.Close()
	db2, err := leveldb.Open(image, nil)
	if err != nil {
		t.Fatalf("open after a crash that followed a failed and discarded commit: %v", err)
	}
	defer db2.Close()
	if v, err := db2.Get([]byte("acknowledged"), nil); err != nil || string(v) != "v" {
		t.Fatalf("acknowledged write after the crash: %q, %v", v, err)
	}
}
