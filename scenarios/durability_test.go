package scenarios

import (
	"fmt"
	"sync/atomic"
	"testing"

	"github.com/syndtr/goleveldb/leveldb"
	"github.com/syndtr/goleveldb/leveldb/opt"
	"github.com/syndtr/goleveldb/leveldb/storage"
	"github.com/syndtr/goleveldb/leveldb/util"
)

// obligation leveldb.(*session).commit:post(...I5-seq / I5-journal)
// A commit that rotates the manifest must carry its own journal and sequence numbers into the new manifest;
// otherwise the reopened DB restarts from an old sequence number and new writes are shadowed / lost.
func TestManifestRotationKeepsSequenceNumbers(t *testing.T) {
	stor := storage.NewMemStorage()
	o := &opt.Options{MaxManifestFileSize: 1, WriteBuffer: 1 << 20}
	db, err := leveldb.Open(stor, o)
	must(t, err)
	const n = 200
	for i := 0; i < n; i++ {
		must(t, db.Put([]byte(fmt.Sprintf("key%04d", i)), []byte(fmt.Sprintf("v1-%d", i)), nil))
	}
	must(t, db.CompactRange(util.Range{})) // flushes the memdb: this commit rotates the manifest
	must(t, db.Close())

	db, err = leveldb.Open(stor, o)
	must(t, err)
	defer db.Close()
	// with a stale sequence number the reopened DB reads "as of" a point before these writes
	bad := 0
	for i := 0; i < n; i++ {
		v, err := db.Get([]byte(fmt.Sprintf("key%04d", i)), nil)
		if err != nil || string(v) != fmt.Sprintf("v1-%d", i) {
			bad++
		}
	}
	if bad > 0 {
		t.Fatalf("%d of %d keys do not return their latest value after a reopen that followed a manifest rotation", bad, n)
	}
}

// obligation leveldb.(*DB).OpenTransaction:post(...no-frozen-memdb)
// A transaction (here: the one DB.Write opens for an oversized batch) records its sequence number in the
// manifest when it commits. If a frozen memdb is still waiting to be flushed at that moment, its journal
// records are older than the recorded sequence number and are dropped by the next recovery: an acknowledged
// Put is lost.
func TestTransactionWaitsForFrozenMemdb(t *testing.T) {
	for attempt := 0; attempt < 40; attempt++ {
		stor := storage.NewMemStorage()
		o := &opt.Options{WriteBuffer: 4096}
		db, err := leveldb.Open(stor, o)
		must(t, err)
		big := make([]byte, 5000)
		const n = 10
		for i := 0; i < n; i++ {
			must(t, db.Put([]byte(fmt.Sprintf("put%02d", i)), big, nil)) // each Put overflows the buffer: the memdb rotates right after
		}
		b := new(leveldb.Batch)
		b.Put([]byte("batch"), make([]byte, 6000)) // larger than the write buffer: goes through a transaction
		must(t, db.Write(b, nil))
		must(t, db.Close())

		db, err = leveldb.Open(stor, o)
		must(t, err)
		lost := 0
		for i := 0; i < n; i++ {
			if _, err := db.Get([]byte(fmt.Sprintf("put%02d", i)), nil); err != nil {
				lost++
			}
		}
		db.Close()
		if lost > 0 {
			t.Fatalf("attempt %d: %d acknowledged Put(s) lost after close and reopen", attempt, lost)
		}
	}
}

// obligation leveldb.(*DB).writeLocked:assert(C08:journal-write-always-followed-by-seq-publication ...)
// A journal write that fails after the record reached the file (here: the Sync fails) must not leave the
// sequence counter where it was: the next write would reuse the same sequence numbers, and recovery then
// rejects or drops the later, acknowledged record.
func TestJournalErrorDoesNotReuseSequenceNumbers(t *testing.T) {
	fs := newFaultStorage()
	db, err := leveldb.Open(fs, &opt.Options{})
	must(t, err)
	must(t, db.Put([]byte("a"), []byte("1"), &opt.WriteOptions{Sync: true}))
	atomic.StoreInt32(fs.failSync[storage.TypeJournal], 1)
	if err := db.Put([]byte("lost?"), []byte("x"), &opt.WriteOptions{Sync: true}); err == nil {
		t.Skip("fault did not hit the journal sync")
	}
	must(t, db.Put([]byte("b"), []byte("2"), &opt.WriteOptions{Sync: true})) // acknowledged
	must(t, db.Close())

	db, err = leveldb.Open(fs, &opt.Options{})
	if err != nil {
		t.Fatalf("reopen failed: %v", err)
	}
	defer db.Close()
	if v, err := db.Get([]byte("b"), nil); err != nil || string(v) != "2" {
		t.Fatalf("acknowledged write b=2 lost after reopen: value=%q err=%v", v, err)
	}
}

// obligation leveldb.(*DB).writeLocked:assert(C08:failed-group-publishes-the-count-its-journal-record-carries ...)
// Same as above with a failed group of several records: every sequence number its journal record carries must be
// skipped, not one per batch. Otherwise the next acknowledged write shares a sequence number with a record of the
// failed group and is hidden behind it (or dropped) when the journal is replayed.
func TestFailedMultiRecordGroupSkipsAllItsSequenceNumbers(t *testing.T) {
	fs := newFaultStorage()
	o := &opt.Options{NoWriteMerge: true}
	db, err := leveldb.Open(fs, o)
	must(t, err)
	must(t, db.Put([]byte("k"), []byte("v0"), &opt.WriteOptions{Sync: true}))
	b := new(leveldb.Batch)
	b.Put([]byte("x"), []byte("1"))
	b.Put([]byte("y"), []byte("2"))
	b.Put([]byte("k"), []byte("old"))
	atomic.StoreInt32(fs.failSync[storage.TypeJournal], 1)
	if err := db.Write(b, &opt.WriteOptions{Sync: true}); err == nil {
		t.Skip("fault did not hit the journal sync")
	}
	must(t, db.Put([]byte("k"), []byte("new"), &opt.WriteOptions{Sync: true})) // acknowledged
	must(t, db.Close())

	db, err = leveldb.Open(fs, o)
	if err != nil {
		t.Fatalf("reopen failed: %v", err)
	}
	defer db.Close()
	if v, err := db.Get([]byte("k"), nil); err != nil || string(v) != "new" {
		t.Fatalf("acknowledged write k=new lost after reopen: value=%q err=%v", v, err)
	}
}

// obligation leveldb.decodeBatchToMem$1:assert(C01,C04:replayed-record-i-gets-the-group-sequence-plus-i ...)
// A batch that writes the same key more than once (Put then Delete) is still
// sitting in the journal when the DB is closed. After reopen the journal is
// replayed; every Get/Has must still agree with a plain map driven by the same
// sequence of operations.
func TestBatchWithTheSameKeyTwiceSurvivesReopen(t *testing.T) {
	stor := storage.NewMemStorage()
	o := &opt.Options{}

	model := map[string]string{}

	check := func(db *leveldb.DB, stage string) {
		t.Helper()
		for _, k := range []string{"a", "k", "m", "z", "never"} {
			want, wantOK := model[k]
			got, err := db.Get([]byte(k), nil)
			switch {
			case err == leveldb.ErrNotFound:
				if wantOK {
					t.Errorf("%s: Get(%q) = not found, want %q", stage, k, want)
				}
			case err != nil:
				t.Fatalf("%s: Get(%q): %v", stage, k, err)
			default:
				if !wantOK {
					t.Errorf("%s: Get(%q) = %q, want not found", stage, k, got)
				} else if string(got) != want {
					t.Errorf("%s: Get(%q) = %q, want %q", stage, k, got, want)
				}
			}
			has, err := db.Has([]byte(k), nil)
			if err != nil {
				t.Fatalf("%s: Has(%q): %v", stage, k, err)
			}
			if has != wantOK {
				t.Errorf("%s: Has(%q) = %v, want %v", stage, k, has, wantOK)
			}
		}
	}

	db, err := leveldb.Open(stor, o)
	if err != nil {
		t.Fatal(err)
	}

	// Some ordinary data around the interesting key.
	for _, k := range []string{"a", "m", "z"} {
		if err := db.Put([]byte(k), []byte("v-"+k), nil); err != nil {
			t.Fatal(err)
		}
		model[k] = "v-" + k
	}

	// One batch touching "k" twice: the later record (the Delete) must win.
	b := new(leveldb.Batch)
	b.Put([]byte("k"), []byte("first"))
	model["k"] = "first"
	b.Put([]byte("m"), []byte("m2"))
	model["m"] = "m2"
	b.Delete([]byte("k"))
	delete(model, "k")
	if err := db.Write(b, nil); err != nil {
		t.Fatal(err)
	}
	check(db, "before reopen")

	// Close while the batch is only in the journal, then reopen (journal replay).
	if err := db.Close(); err != nil {
		t.Fatal(err)
	}
	db, err = leveldb.Open(stor, o)
	if err != nil {
		t.Fatal(err)
	}
	check(db, "after reopen")

	// The wrong answer is persistent: it survives a full compaction and another reopen.
	if err := db.CompactRange(util.Range{}); err != nil {
		t.Fatal(err)
	}
	check(db, "after CompactRange")
	if err := db.Close(); err != nil {
		t.Fatal(err)
	}
	db, err = leveldb.Open(stor, o)
	if err != nil {
		t.Fatal(err)
	}
	check(db, "after second reopen")
	if err := db.Close(); err != nil {
		t.Fatal(err)
	}
}
