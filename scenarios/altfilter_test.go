package scenarios

import (
	"github.com/syndtr/goleveldb/leveldb"
	"fmt"
	"testing"

	"github.com/syndtr/goleveldb/leveldb/filter"
	"github.com/syndtr/goleveldb/leveldb/opt"
	"github.com/syndtr/goleveldb/leveldb/storage"
	"github.com/syndtr/goleveldb/leveldb/util"
)

// scnRevBloom is a second, perfectly valid filter policy: a bloom filter
// over the byte-reversed key, published under its own name. It never hides a
// key that was added to it.
type scnRevBloom struct {
	inner filter.Filter
}

func scnReverse(key []byte) []byte {
	r := make([]byte, len(key))
	for i, c := range key {
		r[len(key)-1-i] = c
	}
	return r
}

func (scnRevBloom) Name() string { return "seed.ReversedKeyBloom" }

func (f scnRevBloom) Contains(filter, key []byte) bool {
	return f.inner.Contains(filter, scnReverse(key))
}

func (f scnRevBloom) NewGenerator() filter.FilterGenerator {
	return scnRevBloomGen{f.inner.NewGenerator()}
}

type scnRevBloomGen struct {
	filter.FilterGenerator
}

func (g scnRevBloomGen) Add(key []byte) {
	g.FilterGenerator.Add(scnReverse(key))
}

// Tables are written under policy A (reversed-key bloom). The DB is then
// reopened with policy B (builtin bloom) as the effective filter and policy A
// listed in AltFilters. Changing the policy must not change any read result.
// obligation table.NewReader:assert(C16:table-is-probed-with-the-policy-whose-name-was-just-compared ...)
func TestFilterPolicyChangeWithAltFiltersKeepsResults(t *testing.T) {
	const n = 500
	stor := storage.NewMemStorage()
	key := func(i int) []byte { return []byte(fmt.Sprintf("key-%06d", i)) }
	val := func(i int) []byte { return []byte(fmt.Sprintf("value-%06d", i)) }

	polA := scnRevBloom{filter.NewBloomFilter(10)}
	polB := filter.NewBloomFilter(10)

	db, err := leveldb.Open(stor, &opt.Options{Filter: polA})
	if err != nil {
		t.Fatal(err)
	}
	for i := 0; i < n; i++ {
		if err := db.Put(key(i), val(i), nil); err != nil {
			t.Fatal(err)
		}
	}
	// Force the data into sorted tables (written with policy A filters).
	if err := db.CompactRange(util.Range{}); err != nil {
		t.Fatal(err)
	}
	// Sanity: readable under the writing policy.
	for i := 0; i < n; i++ {
		if v, err := db.Get(key(i), nil); err != nil || string(v) != string(val(i)) {
			t.Fatalf("policy A: Get(%s) = %q, %v", key(i), v, err)
		}
	}
	if err := db.Close(); err != nil {
		t.Fatal(err)
	}

	check := func(name string, o *opt.Options) {
		db, err := leveldb.Open(stor, o)
		if err != nil {
			t.Fatal(err)
		}
		defer db.Close()
		missingGet, missingHas := 0, 0
		for i := 0; i < n; i++ {
			v, err := db.Get(key(i), nil)
			if err != nil || string(v) != string(val(i)) {
				missingGet++
			}
			if ok, err := db.Has(key(i), nil); err != nil || !ok {
				missingHas++
			}
		}
		it := db.NewIterator(nil, nil)
		cnt := 0
		for it.Next() {
			cnt++
		}
		it.Release()
		if cnt != n {
			t.Errorf("%s: iteration saw %d keys, want %d", name, cnt, n)
		}
		if missingGet != 0 || missingHas != 0 {
			t.Errorf("%s: %d of %d stored keys not returned by Get, %d not reported by Has", name, missingGet, n, missingHas)
		}
	}

	check("no filter", &opt.Options{})
	check("alt only", &opt.Options{AltFilters: []filter.Filter{polA}})
	check("B effective, A alt", &opt.Options{Filter: polB, AltFilters: []filter.Filter{polA}})
}
