package scenarios

import (
	"fmt"
	"sort"
	"testing"

	"github.com/syndtr/goleveldb/leveldb/comparer"
	"github.com/syndtr/goleveldb/leveldb/memdb"
	"github.com/syndtr/goleveldb/leveldb/util"
)

// obligations of package memdb (C14): the in-memory table answers like a sorted map and reports Len / Size
// consistent with its contents, through overwrites with other value lengths, deletions and re-insertions.
func TestMemdbIsASortedMapWithHonestCounters(t *testing.T) {
	p := memdb.New(comparer.DefaultComparer, 0)
	model := map[string]string{}
	check := func(stage string) {
		t.Helper()
		size := 0
		for k, v := range model {
			size += len(k) + len(v)
			got, err := p.Get([]byte(k))
			if err != nil || string(got) != v {
				t.Fatalf("%s: Get(%q) = %q, %v; want %q", stage, k, got, err, v)
			}
			if !p.Contains([]byte(k)) {
				t.Fatalf("%s: Contains(%q) = false", stage, k)
			}
		}
		if p.Len() != len(model) {
			t.Fatalf("%s: Len() = %d, want %d", stage, p.Len(), len(model))
		}
		if p.Size() != size {
			t.Fatalf("%s: Size() = %d, want %d", stage, p.Size(), size)
		}
		var ks []string
		for k := range model {
			ks = append(ks, k)
		}
		sort.Strings(ks)
		it := p.NewIterator(nil)
		i := 0
		for it.Next() {
			if i >= len(ks) || string(it.Key()) != ks[i] || string(it.Value()) != model[ks[i]] {
				t.Fatalf("%s: iterator entry %d is %q=%q", stage, i, it.Key(), it.Value())
			}
			i++
		}
		it.Release()
		if i != len(ks) {
			t.Fatalf("%s: iterator yields %d entries, want %d", stage, i, len(ks))
		}
		// backward: Last / Prev (findLast, findLT) enumerate the same entries in reverse
		it = p.NewIterator(nil)
		i = len(ks)
		for ok := it.Last(); ok; ok = it.Prev() {
			i--
			if i < 0 || string(it.Key()) != ks[i] || string(it.Value()) != model[ks[i]] {
				t.Fatalf("%s: backward iterator entry %d is %q=%q", stage, i, it.Key(), it.Value())
			}
		}
		if i != 0 {
			t.Fatalf("%s: backward iterator stops %d entries short", stage, i)
		}
		// Seek then Prev: the entry before the first key not smaller than the probe
		for _, probe := range []string{"", "a", "k05", "k05x", "k5", "zzz"} {
			j := sort.SearchStrings(ks, probe)
			if j == len(ks) {
				continue
			}
			if !it.Seek([]byte(probe)) || string(it.Key()) != ks[j] {
				t.Fatalf("%s: Seek(%q) lands on %q, want %q", stage, probe, it.Key(), ks[j])
			}
			if it.Prev() != (j > 0) || (j > 0 && string(it.Key()) != ks[j-1]) {
				t.Fatalf("%s: Prev after Seek(%q) gives %q, want entry %d", stage, probe, it.Key(), j-1)
			}
		}
		it.Release()
		// Find: first key not smaller
		for _, probe := range []string{"", "a", "k05", "k05x", "k5", "zzz"} {
			j := sort.SearchStrings(ks, probe)
			rk, _, err := p.Find([]byte(probe))
			if j == len(ks) {
				if err == nil {
					t.Fatalf("%s: Find(%q) = %q, want not found", stage, probe, rk)
				}
			} else if err != nil || string(rk) != ks[j] {
				t.Fatalf("%s: Find(%q) = %q, %v; want %q", stage, probe, rk, err, ks[j])
			}
		}
	}
	for i := 0; i < 40; i++ {
		k, v := fmt.Sprintf("k%02d", (i*7)%40), fmt.Sprintf("value-%d", i)
		must(t, p.Put([]byte(k), []byte(v)))
		model[k] = v
	}
	must(t, p.Put([]byte(""), []byte("empty key")))
	model[""] = "empty key"
	check("after inserts")
	for i := 0; i < 40; i += 3 {
		k := fmt.Sprintf("k%02d", i)
		v := fmt.Sprintf("a-much-longer-value-for-%d", i)
		if i%2 == 0 {
			v = ""
		}
		must(t, p.Put([]byte(k), []byte(v)))
		model[k] = v
	}
	check("after overwrites with other lengths")
	for i := 1; i < 40; i += 4 {
		k := fmt.Sprintf("k%02d", i)
		must(t, p.Delete([]byte(k)))
		delete(model, k)
	}
	if err := p.Delete([]byte("absent")); err == nil {
		t.Fatalf("Delete of an absent key succeeded")
	}
	check("after deletions")
	for i := 1; i < 40; i += 8 {
		k, v := fmt.Sprintf("k%02d", i), "back"
		must(t, p.Put([]byte(k), []byte(v)))
		model[k] = v
	}
	check("after re-insertions")
}

// obligation memdb.(*dbIter).Seek:post(C02,C14:facing-forward-after-a-forward-move)
// An iterator that has been walked backwards and is then Seek'ed past the
// tail of the list must sit "after the last key", exactly like a sorted map
// cursor: Next stays exhausted, Prev steps back onto the last key.
func TestMemdbIteratorKeepsItsDirectionAfterSeek(t *testing.T) {
	db := memdb.New(comparer.DefaultComparer, 0)
	for _, k := range []string{"b", "d", "f"} {
		if err := db.Put([]byte(k), []byte("v"+k)); err != nil {
			t.Fatal(err)
		}
	}

	check := func(name string, slice *util.Range, seekKey, wantLast string) {
		// Next after a Seek that ran off the tail.
		it := db.NewIterator(slice)
		if !it.Last() || string(it.Key()) != wantLast {
			t.Fatalf("%s: Last() = %q, want %q", name, it.Key(), wantLast)
		}
		if it.Seek([]byte(seekKey)) {
			t.Fatalf("%s: Seek(%q) = true (%q), want false", name, seekKey, it.Key())
		}
		if it.Next() {
			t.Errorf("%s: Next() after Seek(%q) past the tail yielded %q, want exhausted", name, seekKey, it.Key())
		}
		it.Release()

		// Prev after a Seek that ran off the tail.
		it = db.NewIterator(slice)
		if !it.Last() {
			t.Fatalf("%s: Last() = false", name)
		}
		for it.Prev() { // walk backwards off the head, then come back with Seek
		}
		if it.Seek([]byte(seekKey)) {
			t.Fatalf("%s: Seek(%q) = true (%q), want false", name, seekKey, it.Key())
		}
		if !it.Prev() {
			t.Errorf("%s: Prev() after Seek(%q) past the tail = false, want %q", name, seekKey, wantLast)
		} else if string(it.Key()) != wantLast {
			t.Errorf("%s: Prev() after Seek(%q) past the tail = %q, want %q", name, seekKey, it.Key(), wantLast)
		}
		it.Release()
	}

	check("no range", nil, "g", "f")
	// Range whose bounds are absent keys: [c, e) holds only "d".
	check("range c..e", &util.Range{Start: []byte("c"), Limit: []byte("e")}, "e", "d")
}

func scnMemdbSizeOf(db *memdb.DB) (n, size int) {
	it := db.NewIterator(nil)
	defer it.Release()
	for it.Next() {
		n++
		size += len(it.Key()) + len(it.Value())
	}
	return
}

// Reset returns the table to the initial empty state; a reused table must
// report Len and Size consistent with its (new) contents.
// obligation memdb.(*DB).Reset:post(C14:reset-empties-the-table-and-its-counters)
func TestMemdbResetZeroesItsCounters(t *testing.T) {
	db := memdb.New(comparer.DefaultComparer, 0)

	check := func(stage string) {
		n, size := scnMemdbSizeOf(db)
		if db.Len() != n {
			t.Errorf("%s: Len() = %d, contents hold %d entries", stage, db.Len(), n)
		}
		if db.Size() != size {
			t.Errorf("%s: Size() = %d, contents hold %d bytes", stage, db.Size(), size)
		}
	}

	// First life: a mixed sequence.
	db.Put([]byte("alpha"), []byte("1"))
	db.Put([]byte("beta"), []byte("22"))
	db.Put([]byte("gamma"), []byte("333"))
	db.Put([]byte("beta"), []byte("4444")) // overwrite, different length
	db.Delete([]byte("alpha"))
	check("first life")

	db.Reset()
	check("after Reset")
	if db.Size() != 0 || db.Len() != 0 {
		t.Errorf("after Reset: Len() = %d, Size() = %d; want 0, 0", db.Len(), db.Size())
	}

	// Second life.
	db.Put([]byte("k"), []byte("v"))
	db.Put([]byte(""), []byte("")) // empty key, empty value
	db.Put([]byte("kk"), []byte("vv"))
	db.Delete([]byte("k"))
	check("second life")
	if _, err := db.Get([]byte("beta")); err != memdb.ErrNotFound {
		t.Errorf("second life: key of first life still visible (err = %v)", err)
	}
}

// obligations of the memdb iterator's step rules (C02, C14): an iterator over a range shows exactly the entries of
// the range, forward and backward, and a Seek below the start lands on the first entry of the range; the value shown
// with a key is the one stored with it.
func TestMemdbRangeIteratorStaysInsideItsRange(t *testing.T) {
	p := memdb.New(comparer.DefaultComparer, 0)
	var ks []string
	for i := 0; i < 60; i++ {
		k := fmt.Sprintf("k%02d", (i*13)%60)
		must(t, p.Put([]byte(k), []byte("v-"+k)))
		ks = append(ks, k)
	}
	sort.Strings(ks)
	bounds := []string{"", "a", "k00", "k07", "k075", "k30", "k59", "k60", "z"}
	for _, lo := range append([]string{"\x00nil"}, bounds...) {
		for _, hi := range append([]string{"\x00nil"}, bounds...) {
			rg := &util.Range{}
			from, to := 0, len(ks)
			if lo != "\x00nil" {
				rg.Start = []byte(lo)
				from = sort.SearchStrings(ks, lo)
			}
			if hi != "\x00nil" {
				rg.Limit = []byte(hi)
				to = sort.SearchStrings(ks, hi)
			}
			if to < from {
				to = from
			}
			want := ks[from:to]
			name := fmt.Sprintf("range [%q, %q)", lo, hi)
			it := p.NewIterator(rg)
			n := 0
			for ok := it.First(); ok; ok = it.Next() {
				if n >= len(want) || string(it.Key()) != want[n] || string(it.Value()) != "v-"+want[n] {
					t.Fatalf("%s: forward entry %d is %q=%q", name, n, it.Key(), it.Value())
				}
				n++
			}
			if n != len(want) {
				t.Fatalf("%s: forward walk shows %d entries, want %d", name, n, len(want))
			}
			n = len(want)
			for ok := it.Last(); ok; ok = it.Prev() {
				n--
				if n < 0 || string(it.Key()) != want[n] || string(it.Value()) != "v-"+want[n] {
					t.Fatalf("%s: backward entry %d is %q=%q", name, n, it.Key(), it.Value())
				}
			}
			if n != 0 {
				t.Fatalf("%s: backward walk stops %d entries short", name, n)
			}
			for _, probe := range []string{"", "k00", "k29", "k295", "k59", "zz"} {
				j := sort.SearchStrings(want, probe)
				ok := it.Seek([]byte(probe))
				if ok != (j < len(want)) || (ok && string(it.Key()) != want[j]) {
					t.Fatalf("%s: Seek(%q) = %v at %q, want entry %d of %d", name, probe, ok, it.Key(), j, len(want))
				}
				if ok {
					if it.Prev() != (j > 0) || (j > 0 && string(it.Key()) != want[j-1]) {
						t.Fatalf("%s: Prev after Seek(%q) gives %q", name, probe, it.Key())
					}
				}
			}
			it.Release()
		}
	}
}
