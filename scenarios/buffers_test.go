package scenarios

import (
	"bytes"
	"testing"

	"github.com/syndtr/goleveldb/leveldb"
	"github.com/syndtr/goleveldb/leveldb/opt"
	"github.com/syndtr/goleveldb/leveldb/storage"
	"github.com/syndtr/goleveldb/leveldb/util"
)

// obligation table.(*Reader).find:post(C20:value-is-a-private-copy)
// A value returned by Get is the caller's: scribbling over it must not change what later Gets return. Without a
// buffer pool the table reader handed out a slice of the (cached, shared) block.
func TestGetResultIsAPrivateCopy(t *testing.T) {
	for _, o := range []*opt.Options{
		{DisableBufferPool: true},
		{DisableBufferPool: true, Compression: opt.NoCompression},
		{},
	} {
		db, err := leveldb.Open(storage.NewMemStorage(), o)
		must(t, err)
		want := bytes.Repeat([]byte("value-"), 20)
		must(t, db.Put([]byte("k"), want, nil))
		must(t, db.CompactRange(util.Range{})) // the entry now lives in a table
		v1, err := db.Get([]byte("k"), nil)
		must(t, err)
		for i := range v1 {
			v1[i] = 'X' // the caller may modify its copy freely
		}
		v2, err := db.Get([]byte("k"), nil)
		must(t, err)
		if !bytes.Equal(v2, want) {
			t.Errorf("DisableBufferPool=%v Compression=%v: modifying the slice returned by Get changed what the DB returns: %q...", o.DisableBufferPool, o.Compression, v2[:12])
		}
		db.Close()
	}
}

// obligation leveldb.(*DB).get:post(C20:result-is-a-private-copy)#ret 1 (the transaction's own write buffer)
func TestTransactionGetResultIsAPrivateCopy(t *testing.T) {
	db, err := leveldb.Open(storage.NewMemStorage(), nil)
	must(t, err)
	defer db.Close()
	tr, err := db.OpenTransaction()
	must(t, err)
	want := bytes.Repeat([]byte("value-"), 20)
	must(t, tr.Put([]byte("k"), want, nil))
	v1, err := tr.Get([]byte("k"), nil)
	must(t, err)
	for i := range v1 {
		v1[i] = 'X'
	}
	v2, err := tr.Get([]byte("k"), nil)
	must(t, err)
	if !bytes.Equal(v2, want) {
		t.Errorf("modifying the slice returned by Transaction.Get changed what the transaction returns: %q...", v2[:12])
	}
	must(t, tr.Commit())
	v3, err := db.Get([]byte("k"), nil)
	must(t, err)
	if !bytes.Equal(v3, want) {
		t.Errorf("modifying the slice returned by Transaction.Get changed what was committed: %q...", v3[:12])
	}
}

// obligation leveldb.(*DB).get:post(C20:result-is-a-private-copy)#ret 2 (write buffer / frozen buffer)
func TestGetFromWriteBufferIsAPrivateCopy(t *testing.T) {
	db, err := leveldb.Open(storage.NewMemStorage(), nil)
	must(t, err)
	defer db.Close()
	want := bytes.Repeat([]byte("value-"), 20)
	must(t, db.Put([]byte("k"), want, nil))
	v1, err := db.Get([]byte("k"), nil)
	must(t, err)
	for i := range v1 {
		v1[i] = 'X'
	}
	v2, err := db.Get([]byte("k"), nil)
	must(t, err)
	if !bytes.Equal(v2, want) {
		t.Errorf("modifying the slice returned by Get changed what the DB returns: %q...", v2[:12])
	}
}

// obligation leveldb.(*DB).writeLocked:assert(C20:callers-batch-not-extended)
// Write must leave the caller's batch as it was, also when records of concurrent writers are merged into the same
// journal write.
func TestWriteLeavesCallersBatchUntouched(t *testing.T) {
	db, err := leveldb.Open(storage.NewMemStorage(), nil)
	must(t, err)
	defer db.Close()
	stop := make(chan struct{})
	done := make(chan struct{})
	go func() {
		defer close(done)
		for i := 0; ; i++ {
			select {
			case <-stop:
				return
			default:
			}
			_ = db.Put([]byte{'p', byte(i), byte(i >> 8)}, []byte("concurrent"), nil)
		}
	}()
	for i := 0; i < 3000; i++ {
		b := new(leveldb.Batch)
		b.Put([]byte{'w', byte(i), byte(i >> 8)}, []byte("mine"))
		must(t, db.Write(b, nil))
		if b.Len() != 1 {
			close(stop)
			<-done
			t.Fatalf("after Write the caller's batch holds %d records, it was built with 1 (records of other writers were merged into it)", b.Len())
		}
	}
	close(stop)
	<-done
}
