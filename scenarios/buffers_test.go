package scenarios

import (
	"bytes"
	"testing"

	"github.com/syndtr/goleveldb/leveldb"
	"github.com/syndtr/goleveldb/leveldb/opt"
	"github.com/syndtr/goleveldb/leveldb/storage"
	"github.com/syndtr/goleveldb/leveldb/util"
)

// obligation table.(*Reader).find:post(C20:value-is-a-private-copy)
// A value returned by Get is the caller's: scribbling over it must not change what later Gets return. Without a
// buffer pool the table reader handed out a slice of the (cached, shared) block.
func TestGetResultIsAPrivateCopy(t *testing.T) {
	for _, o := range []*opt.Options{
		{DisableBufferPool: true},
		{DisableBufferPool: true, Compression: opt.NoCompression},
		{},
	} {
		db, err := leveldb.Open(storage.NewMemStorage(), o)
		must(t, err)
		want := bytes.Repeat([]byte("value-"), 20)
		must(t, db.Put([]byte("k"), want, nil))
		must(t, db.CompactRange(util.Range{})) // the entry now lives in a table
		v1, err := db.Get([]byte("k"), nil)
		must(t, err)
		for i := range v1 {
			v1[i] = 'X' // the caller may modify its copy freely
		}
		v2, err := db.Get([]byte("k"), nil)
		must(t, err)
		if !bytes.Equal(v2, want) {
			t.Errorf("DisableBufferPool=%v Compression=%v: modifying the slice returned by Get changed what the DB returns: %q...", o.DisableBufferPool, o.Compression, v2[:12])
		}
		db.Close()
	}
}

// obligation leveldb.(*DB).get:post(C20:result-is-a-private-copy)#ret 1 (the transaction's own write buffer)
func TestTransactionGetResultIsAPrivateCopy(t *testing.T) {
	db, err := leveldb.Open(storage.NewMemStorage(), nil)
	must(t, err)
	defer db.Close()
	tr, err := db.OpenTransaction()
	must(t, err)
	want := bytes.Repeat([]byte("value-"), 20)
	must(t, tr.Put([]byte("k"), want, nil))
	v1, err := tr.Get([]byte("k"), nil)
	must(t, err)
	for i := range v1 {
		v1[i] = 'X'
	}
	v2, err := tr.Get([]byte("k"), nil)
	must(t, err)
	if !bytes.Equal(v2, want) {
		t.Errorf("modifying the slice returned by Transaction.Get changed what the transaction returns: %q...", v2[:12])
	}
	must(t, tr.Commit())
	v3, err := db.Get([]byte("k"), nil)
	must(t, err)
	if !bytes.Equal(v3, want) {
		t.Errorf("modifying the slice returned by Transaction.Get changed what was committed: %q...", v3[:12])
	}
}

// obligation leveldb.(*DB).get:post(C20:result-is-a-private-copy)#ret 2 (write buffer / frozen buffer)
func TestGetFromWriteBufferIsAPrivateCopy(t *testing.T) {
	db, err := leveldb.Open(storage.NewMemStorage(), nil)
	must(t, err)
	defer db.Close()
	want := bytes.Repeat([]byte("value-"), 20)
	must(t, db.Put([]byte("k"), want, nil))
	v1, err := db.Get([]byte("k"), nil)
	must(t, err)
	for i := range v1 {
		v1[i] = 'X'
	}
	v2, err := db.Get([]byte("k"), nil)
	must(t, err)
	if !bytes.Equal(v2, want) {
		t.Errorf("modifying the slice returned by Get changed what the DB returns: %q...", v2[:12])
	}
}

// obligation leveldb.(*DB).writeLocked:assert(C20:callers-batch-not-extended)
// Write must leave the caller's batch as it was, also when records of concurrent writers are merged into the same
// journal write.
func TestWriteLeavesCallersBatchUntouched(t *testing.T) {
	db, err := leveldb.Open(storage.NewMemStorage(), nil)
	must(t, err)
	defer db.Close()
	stop := make(chan struct{})
	done := make(chan struct{})
	go func() {
		defer close(done)
		for i := 0; ; i++ {
			select {
			case <-stop:
				return
			default:
			}
			_ = db.Put([]byte{'p', byte(i), byte(i >> 8)}, []byte("concurrent"), nil)
		}
	}()
	for i := 0; i < 3000; i++ {
		b := new(leveldb.Batch)
		b.Put([]byte{'w', byte(i), byte(i >> 8)}, []byte("mine"))
		must(t, db.Write(b, nil))
		if b.Len() != 1 {
			close(stop)
			<-done
			t.Fatalf("after Write the caller's batch holds %d records, it was built with 1 (records of other writers were merged into it)", b.Len())
		}
	}
	close(stop)
	<-done
}

// obligation leveldb.(*DB).has:assert(C20:internal-key-is-not-built-in-the-callers-buffer ...)
// The caller keeps several keys packed back to back in one buffer and probes
// the DB with sub-slices of it. Has must not write to the caller's memory,
// neither inside nor past the key it was handed.
func TestHasLeavesTheCallersKeyBufferAlone(t *testing.T) {
	db, err := leveldb.Open(storage.NewMemStorage(), nil)
	if err != nil {
		t.Fatal(err)
	}
	defer db.Close()

	for _, k := range []string{"alpha", "bravo", "charlie"} {
		if err := db.Put([]byte(k), []byte("v-"+k), nil); err != nil {
			t.Fatal(err)
		}
	}

	// One buffer holding "alpha" "bravo" "charlie" one after the other.
	packed := []byte("alphabravocharlie-------")
	orig := append([]byte(nil), packed...)
	keys := [][]byte{packed[0:5], packed[5:10], packed[10:17]}

	check := func(stage string) {
		if !bytes.Equal(packed, orig) {
			t.Fatalf("%s: caller's buffer was modified:\n got  %q\n want %q", stage, packed, orig)
		}
	}

	// Key living in the write buffer (memdb).
	ok, err := db.Has(keys[0], nil)
	if err != nil || !ok {
		t.Fatalf("Has(alpha) = %v, %v", ok, err)
	}
	check("after Has(alpha)")

	// The neighbouring keys must still be what the caller put there.
	for i, want := range []string{"alpha", "bravo", "charlie"} {
		ok, err := db.Has(keys[i], nil)
		if err != nil {
			t.Fatal(err)
		}
		if !ok {
			t.Fatalf("Has(%q) (caller wrote %q) = false", keys[i], want)
		}
		check("after Has(" + want + ")")
	}

	// Same through a snapshot and a transaction (they share the lookup path).
	snap, err := db.GetSnapshot()
	if err != nil {
		t.Fatal(err)
	}
	if _, err := snap.Has(keys[1], nil); err != nil {
		t.Fatal(err)
	}
	snap.Release()
	check("after Snapshot.Has(bravo)")

	tr, err := db.OpenTransaction()
	if err != nil {
		t.Fatal(err)
	}
	if _, err := tr.Has(keys[0], nil); err != nil {
		t.Fatal(err)
	}
	tr.Discard()
	check("after Transaction.Has(alpha)")

	// A key with no spare capacity is never affected.
	tight := []byte("bravo")[:5:5]
	if ok, err := db.Has(tight, nil); err != nil || !ok {
		t.Fatalf("Has(tight bravo) = %v, %v", ok, err)
	}
}
