package scenarios

import (
	"fmt"
	"testing"

	"github.com/syndtr/goleveldb/leveldb"
	"github.com/syndtr/goleveldb/leveldb/storage"
	"github.com/syndtr/goleveldb/leveldb/util"
)

// obligations leveldb.(*session).markFileNum / leveldb.recoverTable / leveldb.recoverTable$3 (C19)
// Recover after a clean shutdown gives the same contents, and the recovered DB is an ordinary DB: writes made after
// Recover survive the next close and reopen (file numbers of existing files are not handed out again).
func TestRecoverThenWriteThenReopen(t *testing.T) {
	stor := storage.NewMemStorage()
	db, err := leveldb.Open(stor, nil)
	must(t, err)
	model := map[string]string{}
	put := func(db *leveldb.DB, k, v string) {
		must(t, db.Put([]byte(k), []byte(v), nil))
		model[k] = v
	}
	for i := 0; i < 50; i++ {
		put(db, fmt.Sprintf("key%03d", i), fmt.Sprintf("v1-%d", i))
	}
	must(t, db.CompactRange(util.Range{}))
	for i := 0; i < 50; i += 3 {
		put(db, fmt.Sprintf("key%03d", i), fmt.Sprintf("v2-%d", i))
	}
	must(t, db.Delete([]byte("key001"), nil))
	delete(model, "key001")
	must(t, db.CompactRange(util.Range{}))
	must(t, db.Close())

	check := func(db *leveldb.DB, stage string) {
		t.Helper()
		for k, want := range model {
			got, err := db.Get([]byte(k), nil)
			if err != nil || string(got) != want {
				t.Errorf("%s: Get(%q) = %q, %v; want %q", stage, k, got, err, want)
			}
		}
		if _, err := db.Get([]byte("key001"), nil); err != leveldb.ErrNotFound {
			t.Errorf("%s: deleted key is back (%v)", stage, err)
		}
	}
	db, err = leveldb.Recover(stor, nil)
	must(t, err)
	check(db, "after Recover")
	for i := 0; i < 50; i += 5 {
		put(db, fmt.Sprintf("key%03d", i), fmt.Sprintf("v3-%d", i))
	}
	put(db, "new-key", "new")
	must(t, db.Delete([]byte("key002"), nil))
	delete(model, "key002")
	check(db, "after writes that follow Recover")
	must(t, db.Close())
	db, err = leveldb.Open(stor, nil)
	must(t, err)
	check(db, "after close and reopen")
	if _, err := db.Get([]byte("key002"), nil); err != leveldb.ErrNotFound {
		t.Errorf("after close and reopen: key deleted after Recover is back (%v)", err)
	}
	must(t, db.Close())
}
