package scenarios

import (
	"fmt"
	"testing"

	"github.com/syndtr/goleveldb/leveldb"
	"github.com/syndtr/goleveldb/leveldb/storage"
	"github.com/syndtr/goleveldb/leveldb/util"
)

// obligation leveldb.(*tableCompactionBuilder).run:assert(C01,C03:dropped-only-if-shadowed-or-obsolete-tombstone)
// Snapshots at several positions around overwrites and a delete of one key; every compaction must keep, for each
// live snapshot, the entry that snapshot sees - including a deletion marker newer than the oldest snapshot.
func TestSnapshotsSurviveCompaction(t *testing.T) {
	db, err := leveldb.Open(storage.NewMemStorage(), nil)
	must(t, err)
	defer db.Close()
	key := []byte("k")
	type view struct {
		snap *leveldb.Snapshot
		want string // "" = not found
	}
	var views []view
	take := func(want string) {
		s, err := db.GetSnapshot()
		must(t, err)
		views = append(views, view{s, want})
	}
	take("")
	must(t, db.Put(key, []byte("v1"), nil))
	must(t, db.CompactRange(util.Range{}))
	take("v1")
	must(t, db.Delete(key, nil))
	take("")
	must(t, db.Put(key, []byte("v2"), nil))
	take("v2")
	must(t, db.Delete(key, nil))
	take("")
	check := func(stage string) {
		for i, v := range views {
			got, err := v.snap.Get(key, nil)
			switch {
			case v.want == "" && err != leveldb.ErrNotFound:
				t.Errorf("%s: snapshot %d sees %q, %v; want not found", stage, i, got, err)
			case v.want != "" && (err != nil || string(got) != v.want):
				t.Errorf("%s: snapshot %d sees %q, %v; want %q", stage, i, got, err, v.want)
			}
		}
		if got, err := db.Get(key, nil); err != leveldb.ErrNotFound {
			t.Errorf("%s: live DB sees %q, %v; want not found", stage, got, err)
		}
	}
	check("before compaction")
	for round := 0; round < 3; round++ {
		must(t, db.CompactRange(util.Range{}))
		check(fmt.Sprintf("after compaction %d", round+1))
	}
	// releasing from the oldest on: the remaining views do not change
	for len(views) > 0 {
		views[0].snap.Release()
		views = views[1:]
		must(t, db.Put([]byte("other"), []byte("x"), nil))
		must(t, db.CompactRange(util.Range{}))
		check(fmt.Sprintf("with %d snapshots left", len(views)))
	}
}
