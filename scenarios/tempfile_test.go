package scenarios

import (
	"testing"

	"github.com/syndtr/goleveldb/leveldb"
	"github.com/syndtr/goleveldb/leveldb/storage"
)

// obligation leveldb.(*DB).checkAndCleanFiles:assert(C07:a-temporary-file-is-never-kept
// A temporary file - what an interrupted table rebuild of Recover leaves behind - does not survive the next open:
// after close and reopen storage holds only live files (F13).
func TestLeftoverTemporaryFileIsSwept(t *testing.T) {
	stor := storage.NewMemStorage()
	db, err := leveldb.Open(stor, nil)
	must(t, err)
	must(t, db.Put([]byte("k"), []byte("v"), nil))
	must(t, db.Close())
	w, err := stor.Create(storage.FileDesc{Type: storage.TypeTemp, Num: 1000})
	must(t, err)
	_, err = w.Write([]byte("partial table"))
	must(t, err)
	must(t, w.Close())
	for i := 0; i < 2; i++ {
		db, err = leveldb.Open(stor, nil)
		must(t, err)
		must(t, db.Close())
	}
	fds, _ := stor.List(storage.TypeAll)
	for _, fd := range fds {
		if fd.Type == storage.TypeTemp {
			t.Fatalf("temporary file %s still present after close and reopen: %v", fd, fds)
		}
	}
}
