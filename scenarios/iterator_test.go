package scenarios

import (
	"fmt"
	"sort"
	"testing"

	"github.com/syndtr/goleveldb/leveldb"
	"github.com/syndtr/goleveldb/leveldb/storage"
	"github.com/syndtr/goleveldb/leveldb/util"
)

// obligations leveldb.(*dbIter).next / leveldb.(*dbIter).prev (C02)
// Keys with several versions, deletions and re-insertions spread over the write buffer and tables; snapshots at
// several positions. Forward and backward walks of every view must show exactly the live pairs of that view, each
// once, in order, with the value of the newest version visible to the view.
func TestIteratorShowsNewestVisibleVersions(t *testing.T) {
	db, err := leveldb.Open(storage.NewMemStorage(), nil)
	must(t, err)
	defer db.Close()
	model := map[string]string{}
	type view struct {
		snap *leveldb.Snapshot
		m    map[string]string
	}
	var views []view
	take := func() {
		s, err := db.GetSnapshot()
		must(t, err)
		c := map[string]string{}
		for k, v := range model {
			c[k] = v
		}
		views = append(views, view{s, c})
	}
	step := 0
	put := func(k string) {
		step++
		v := fmt.Sprintf("%s-v%d", k, step)
		must(t, db.Put([]byte(k), []byte(v), nil))
		model[k] = v
	}
	del := func(k string) {
		step++
		must(t, db.Delete([]byte(k), nil))
		delete(model, k)
	}
	keys := []string{"", "a", "b", "c", "d", "e", "f"}
	for _, k := range keys {
		put(k)
	}
	take()
	del("b")
	put("c")
	must(t, db.CompactRange(util.Range{}))
	take()
	put("b")
	del("d")
	del("")
	take()
	put("d")
	put("d")
	del("f")
	must(t, db.CompactRange(util.Range{}))
	take()
	del("a")
	put("")
	take()

	walk := func(name string, it interface {
		First() bool
		Last() bool
		Next() bool
		Prev() bool
		Key() []byte
		Value() []byte
		Release()
	}, want map[string]string) {
		var ks []string
		for k := range want {
			ks = append(ks, k)
		}
		sort.Strings(ks)
		var fwd, bwd []string
		for ok := it.First(); ok; ok = it.Next() {
			fwd = append(fwd, string(it.Key())+"="+string(it.Value()))
		}
		for ok := it.Last(); ok; ok = it.Prev() {
			bwd = append([]string{string(it.Key()) + "=" + string(it.Value())}, bwd...)
		}
		// stepping off either end is remembered: the iterator is not valid there, and one step back lands on
		// the last / first pair
		if len(ks) > 0 {
			for ok := it.First(); ok; ok = it.Next() {
			}
			if it.Key() != nil || it.Value() != nil {
				t.Errorf("%s: after stepping off the end Key/Value are %q/%q, want nil", name, it.Key(), it.Value())
			}
			if !it.Prev() || string(it.Key()) != ks[len(ks)-1] {
				t.Errorf("%s: Prev after stepping off the end lands on %q, want %q", name, it.Key(), ks[len(ks)-1])
			}
			for ok := it.Last(); ok; ok = it.Prev() {
			}
			if it.Key() != nil || it.Value() != nil {
				t.Errorf("%s: after stepping off the start Key/Value are %q/%q, want nil", name, it.Key(), it.Value())
			}
			if !it.Next() || string(it.Key()) != ks[0] {
				t.Errorf("%s: Next after stepping off the start lands on %q, want %q", name, it.Key(), ks[0])
			}
		}
		it.Release()
		var exp []string
		for _, k := range ks {
			exp = append(exp, k+"="+want[k])
		}
		if fmt.Sprint(fwd) != fmt.Sprint(exp) {
			t.Errorf("%s forward walk: got %v, want %v", name, fwd, exp)
		}
		if fmt.Sprint(bwd) != fmt.Sprint(exp) {
			t.Errorf("%s backward walk: got %v, want %v", name, bwd, exp)
		}
	}
	for round := 0; round < 2; round++ {
		for i, v := range views {
			walk(fmt.Sprintf("round %d snapshot %d", round, i), v.snap.NewIterator(nil, nil), v.m)
		}
		walk(fmt.Sprintf("round %d live", round), db.NewIterator(nil, nil), model)
		must(t, db.CompactRange(util.Range{}))
	}
	for _, v := range views {
		v.snap.Release()
	}
}
