package scenarios

import (
	"testing"

	"github.com/syndtr/goleveldb/leveldb/cache"
)

// scnEvictValue is an instrumented cache value: it counts how often it is
// finalised (Release is what the cache calls when it drops the value).
type scnEvictValue struct {
	id       int
	released *int
}

func (v *scnEvictValue) Release() { *v.released++ }

// A namespace-wide eviction (what tOps.remove does on the block cache when
// BlockCacheEvictRemoved is set) must only drop the replacement policy's own
// handle. A value whose handle is still held by a reader has to stay alive,
// and has to stay THE value for its (namespace, key), until that handle is
// released; it is then finalised exactly once.
// obligation cache.(*Cache).EvictNS:nocall(C17:evicting-a-namespace-drops-no-reference-it-does-not-hold)
func TestEvictingANamespaceKeepsHeldValuesAlive(t *testing.T) {
	c := cache.NewCache(cache.NewLRU(10))

	var released [3]int
	constructed := 0
	get := func(ns, key uint64, id int) *cache.Handle {
		return c.Get(ns, key, func() (int, cache.Value) {
			constructed++
			return 1, &scnEvictValue{id: id, released: &released[id]}
		})
	}

	// Namespace 1: one entry in use (handle kept), one idle entry.
	// Namespace 2: one entry in use, must not be affected at all.
	inUse := get(1, 1, 0)
	get(1, 2, 1).Release()
	other := get(2, 1, 2)
	if constructed != 3 {
		t.Fatalf("constructed=%d, want 3", constructed)
	}

	c.EvictNS(1)

	// The idle entry is gone, finalised exactly once.
	if released[1] != 1 {
		t.Errorf("idle entry (1,2): finalised %d times after EvictNS, want 1", released[1])
	}
	// The in-use entry must not have been finalised: its handle is outstanding.
	if released[0] != 0 {
		t.Errorf("in-use entry (1,1): finalised %d times while a handle is outstanding", released[0])
	}
	if v, ok := inUse.Value().(*scnEvictValue); !ok || v.id != 0 {
		t.Errorf("in-use entry (1,1): outstanding handle now yields %v, want the live value", inUse.Value())
	}
	if released[2] != 0 {
		t.Errorf("entry (2,1) of another namespace: finalised %d times", released[2])
	}

	// A second lookup of the same (namespace, key) must obtain the same live
	// value, without running the constructor again.
	again := get(1, 1, 0)
	if constructed != 3 {
		t.Errorf("constructor ran again for (1,1) while the first value is still held (constructed=%d, want 3)", constructed)
	}
	if again.Value() != inUse.Value() || again.Value() == nil {
		t.Errorf("second lookup of (1,1) got %v, first handle has %v: not the same live value", again.Value(), inUse.Value())
	}
	again.Release()
	if released[0] != 0 {
		t.Errorf("in-use entry (1,1): finalised %d times while the first handle is still outstanding", released[0])
	}

	// Releasing the last handle (plus evicting what the policy re-admitted)
	// finalises the value exactly once.
	inUse.Release()
	c.EvictNS(1)
	if released[0] != 1 {
		t.Errorf("entry (1,1): finalised %d times after the last handle was released, want exactly 1", released[0])
	}

	other.Release()
	c.EvictAll()
	if released != [3]int{1, 1, 1} {
		t.Errorf("finalisation counts %v, want [1 1 1]", released)
	}
	if n := c.Nodes(); n != 0 {
		t.Errorf("%d nodes left in the cache, want 0", n)
	}
}
