package scenarios

import (
	"github.com/syndtr/goleveldb/leveldb/cache"
	"sync/atomic"
	"testing"
)

// scnCacheValue is an instrumented cache value: it counts how many times it
// has been finalised (Release called by the cache).
type scnCacheValue struct {
	released int32
}

func (v *scnCacheValue) Release() {
	atomic.AddInt32(&v.released, 1)
}

// A value must be finalised exactly once, and (unless the cache is
// force-closed) only after every handle to it has been released. Here the
// cache is closed gracefully (force == false) while one entry is only retained
// by the replacement policy and another one still has a handle outstanding.
// Once the cache is closed and every handle is released, each value must have
// been finalised exactly once.
// obligation cache.(*Cache).Close$1:inv-pres(loop 1, C17:every-node-so-far-was-taken-back-from-the-policy)
func TestGracefulCacheCloseFinalisesEveryValueOnce(t *testing.T) {
	c := cache.NewCache(cache.NewLRU(10))

	held := &scnCacheValue{}
	idle := &scnCacheValue{}

	hHeld := c.Get(1, 1, func() (int, cache.Value) { return 1, held })
	if hHeld == nil {
		t.Fatal("nil handle for held entry")
	}
	hIdle := c.Get(2, 1, func() (int, cache.Value) { return 1, idle })
	if hIdle == nil {
		t.Fatal("nil handle for idle entry")
	}
	hIdle.Release() // only the replacement policy retains this one

	// Graceful (non-forced) close while hHeld is outstanding.
	c.Close(false)

	// The held entry must still be alive.
	if n := atomic.LoadInt32(&held.released); n != 0 {
		t.Errorf("held value finalised %d time(s) by Close(false) while a handle is outstanding, want 0", n)
	}
	if v := hHeld.Value(); v != cache.Value(held) {
		t.Errorf("outstanding handle returns %v after Close(false), want the live value", v)
	}

	// The idle entry had no outstanding handle: the closed cache must have
	// dropped it, finalising it exactly once.
	if n := atomic.LoadInt32(&idle.released); n != 1 {
		t.Errorf("idle value finalised %d time(s) after Close(false), want 1", n)
	}

	// Releasing the last handle finalises the held value, exactly once.
	hHeld.Release()
	if n := atomic.LoadInt32(&held.released); n != 1 {
		t.Errorf("held value finalised %d time(s) after cache closed and last handle released, want 1", n)
	}

	// The cache is closed: nothing can be looked up any more.
	if h := c.Get(1, 1, nil); h != nil {
		t.Errorf("closed cache still hands out a handle")
	}
}
