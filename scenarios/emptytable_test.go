package scenarios

// obligation table.(*block).seek:post(C02,C13:past-the-last-restart-point-is-the-end-of-the-entries)
// F17: an empty table iterated with a range whose Start is the empty (non-nil) key reported a spurious corruption
// error (the restart count was read as an entry offset). Found by a hunting agent.

import (
	"bytes"
	"testing"

	"github.com/syndtr/goleveldb/leveldb/opt"
	"github.com/syndtr/goleveldb/leveldb/storage"
	"github.com/syndtr/goleveldb/leveldb/table"
	"github.com/syndtr/goleveldb/leveldb/util"
)

func TestEmptyTableIteratedFromTheEmptyKeyReportsNoCorruption(t *testing.T) {
	o := &opt.Options{Compression: opt.NoCompression}
	buf := &bytes.Buffer{}
	w := table.NewWriter(buf, o, nil, 0)
	if err := w.Close(); err != nil { // empty table
		t.Fatal(err)
	}
	r, err := table.NewReader(bytes.NewReader(buf.Bytes()), int64(buf.Len()), storage.FileDesc{Type: storage.TypeTable, Num: 1}, nil, nil, o)
	if err != nil {
		t.Fatal(err)
	}
	defer r.Release()

	// Sanity: the table is readable and empty.
	it := r.NewIterator(nil, nil)
	if it.First() || it.Error() != nil {
		t.Fatalf("unrestricted iteration: valid=%v err=%v", it.Valid(), it.Error())
	}
	it.Release()
	it = r.NewIterator(&util.Range{Start: []byte("a"), Limit: []byte("z")}, nil)
	if it.First() || it.Error() != nil {
		t.Fatalf("range [a,z): valid=%v err=%v", it.Valid(), it.Error())
	}
	it.Release()

	// (a) Start = "" and a limit: the error is there from the first movement.
	it = r.NewIterator(&util.Range{Start: []byte{}, Limit: []byte("z")}, nil)
	if it.First() {
		t.Errorf("range [\"\",z): First() returned an entry %q", it.Key())
	}
	if err := it.Error(); err != nil {
		t.Errorf("range [\"\",z): First() on an intact empty table: %v", err)
	}
	it.Release()

	// (b) Start = "" only (this is what util.BytesPrefix([]byte{}) builds):
	// Next is fine, Seek reports corruption.
	it = r.NewIterator(util.BytesPrefix([]byte{}), nil)
	if it.Next() || it.Error() != nil {
		t.Errorf("range [\"\",nil): Next: valid=%v err=%v", it.Valid(), it.Error())
	}
	if it.Seek([]byte{}) {
		t.Errorf("range [\"\",nil): Seek returned an entry %q", it.Key())
	}
	if err := it.Error(); err != nil {
		t.Errorf("range [\"\",nil): Seek(\"\") on an intact empty table: %v", err)
	}
	it.Release()
}
