package scenarios

import (
	"bytes"
	"fmt"
	"sort"
	"testing"

	"github.com/syndtr/goleveldb/leveldb/comparer"
	"github.com/syndtr/goleveldb/leveldb/filter"
	"github.com/syndtr/goleveldb/leveldb/opt"
	"github.com/syndtr/goleveldb/leveldb/storage"
	"github.com/syndtr/goleveldb/leveldb/table"
)

// obligations of package table for C13 (entry / handle / trailer codecs, buffer append)
// Tables written under several block sizes, restart intervals and compression settings, with shared prefixes,
// empty values, long values and an empty key, are read back pair by pair (iteration and exact lookups).
func TestTableRoundTripsUnderAllLayouts(t *testing.T) {
	var keys, vals [][]byte
	keys = append(keys, []byte{})
	vals = append(vals, []byte("empty-key"))
	for i := 0; i < 300; i++ {
		keys = append(keys, []byte(fmt.Sprintf("key/%03d/%s", i/7, bytes.Repeat([]byte{'a' + byte(i%7)}, i%5+1))))
		switch i % 4 {
		case 0:
			vals = append(vals, nil)
		case 1:
			vals = append(vals, bytes.Repeat([]byte{byte(i)}, 5000))
		default:
			vals = append(vals, []byte(fmt.Sprintf("value-%d", i)))
		}
	}
	// sort / dedupe by construction: keys above are increasing in (i/7, letter) except for repeats of length
	uniq := map[string]int{}
	var ks, vs [][]byte
	for i, k := range keys {
		if _, ok := uniq[string(k)]; ok {
			continue
		}
		uniq[string(k)] = i
		ks, vs = append(ks, k), append(vs, vals[i])
	}
	// insertion sort by bytes.Compare (small n)
	for i := 1; i < len(ks); i++ {
		for j := i; j > 0 && bytes.Compare(ks[j-1], ks[j]) > 0; j-- {
			ks[j-1], ks[j] = ks[j], ks[j-1]
			vs[j-1], vs[j] = vs[j], vs[j-1]
		}
	}
	for _, bs := range []int{1, 64, 4096} {
		for _, ri := range []int{1, 3, 16} {
			for _, comp := range []opt.Compression{opt.NoCompression, opt.SnappyCompression} {
				o := &opt.Options{BlockSize: bs, BlockRestartInterval: ri, Compression: comp, Comparer: comparer.DefaultComparer}
				stor := storage.NewMemStorage()
				fd := storage.FileDesc{Type: storage.TypeTable, Num: 1}
				w, err := stor.Create(fd)
				must(t, err)
				tw := table.NewWriter(w, o, nil, 0)
				for i := range ks {
					must(t, tw.Append(ks[i], vs[i]))
				}
				must(t, tw.Close())
				size := int64(tw.BytesLen())
				must(t, w.Close())
				r, err := stor.Open(fd)
				must(t, err)
				tr, err := table.NewReader(r, size, fd, nil, nil, o)
				must(t, err)
				it := tr.NewIterator(nil, nil)
				n := 0
				for it.Next() {
					if n >= len(ks) || !bytes.Equal(it.Key(), ks[n]) || !bytes.Equal(it.Value(), vs[n]) {
						t.Fatalf("bs=%d ri=%d comp=%v: pair %d read back as %q=%q...", bs, ri, comp, n, it.Key(), it.Value()[:min(len(it.Value()), 12)])
					}
					n++
				}
				must(t, it.Error())
				it.Release()
				if n != len(ks) {
					t.Fatalf("bs=%d ri=%d comp=%v: %d pairs read back, %d written", bs, ri, comp, n, len(ks))
				}
				for i := range ks {
					rk, rv, err := tr.Find(ks[i], false, nil)
					if err != nil || !bytes.Equal(rk, ks[i]) || !bytes.Equal(rv, vs[i]) {
						t.Fatalf("bs=%d ri=%d comp=%v: Find(%q) = %q, %v", bs, ri, comp, ks[i], rk, err)
					}
				}
				tr.Release()
				r.Close()
			}
		}
	}
}

func min(a, b int) int {
	if a < b {
		return a
	}
	return b
}

// obligation table.(*Reader).find:assert(C08,C13:data-block-read-with-the-readers-checksum-setting)
// With block checksums on, a flipped byte in a data block is reported whatever path a lookup takes to that block
// (exact hit, or first key of the next block) and whatever the read options say about the cache.
func TestFlippedByteIsReportedOnEveryLookupPath(t *testing.T) {
	o := &opt.Options{BlockSize: 256, BlockRestartInterval: 4, Compression: opt.NoCompression, Strict: opt.StrictBlockChecksum}
	const n = 60
	keys, values := make([][]byte, n), make([][]byte, n)
	for i := 0; i < n; i++ {
		keys[i] = []byte(fmt.Sprintf("key%04d", i*5))
		values[i] = []byte(fmt.Sprintf("value-%04d-0123456789", i))
	}
	buf := &bytes.Buffer{}
	tw := table.NewWriter(buf, o, nil, 0)
	var firstOfBlock []int
	for i := range keys {
		before := tw.BlocksLen()
		must(t, tw.Append(keys[i], values[i]))
		if tw.BlocksLen() > before && i+1 < n {
			firstOfBlock = append(firstOfBlock, i+1)
		}
	}
	must(t, tw.Close())
	if len(firstOfBlock) < 3 {
		t.Skip("layout has too few blocks")
	}
	for _, ro := range []*opt.ReadOptions{nil, {DontFillCache: true}} {
		for _, first := range firstOfBlock {
			data := append([]byte(nil), buf.Bytes()...)
			pos := bytes.Index(data, values[first])
			if pos < 0 {
				t.Fatalf("cannot locate the value to damage")
			}
			data[pos+8] ^= 0x01
			tr, err := table.NewReader(bytes.NewReader(data), int64(len(data)), storage.FileDesc{}, nil, nil, o)
			must(t, err)
			for _, sought := range [][]byte{keys[first], append(append([]byte(nil), keys[first-1]...), 0)} {
				rkey, rvalue, err := tr.Find(sought, false, ro)
				if err == nil && bytes.Equal(rkey, keys[first]) && !bytes.Equal(rvalue, values[first]) {
					t.Errorf("DontFillCache=%v: Find(%q) served the altered value %q without reporting corruption", ro != nil, sought, rvalue)
				}
			}
			tr.Release()
		}
	}
}

// obligation table.(*filterWriter).finish:post(trailer-carries-the-partition-width-the-writer-used)
// A table written with a bloom filter and a non-default filter base (one
// filter per 2^FilterBaseLg bytes of table offset) must still answer exact,
// filtered lookups for every pair that was written.
func TestFilteredLookupFindsEveryKeyWhateverTheFilterBase(t *testing.T) {
	for _, baseLg := range []int{0 /* default */, 8, 9} {
		baseLg := baseLg
		t.Run(fmt.Sprintf("FilterBaseLg=%d", baseLg), func(t *testing.T) {
			o := &opt.Options{
				BlockSize:            256,
				BlockRestartInterval: 4,
				Compression:          opt.NoCompression,
				Filter:               filter.NewBloomFilter(10),
				FilterBaseLg:         baseLg,
				Strict:               opt.StrictAll,
			}

			const n = 2000
			keys := make([][]byte, n)
			vals := make([][]byte, n)
			buf := &bytes.Buffer{}
			tw := table.NewWriter(buf, o, nil, 0)
			for i := 0; i < n; i++ {
				keys[i] = []byte(fmt.Sprintf("key%06d", i*2))
				vals[i] = bytes.Repeat([]byte{byte('a' + i%26)}, 30+i%17)
				if err := tw.Append(keys[i], vals[i]); err != nil {
					t.Fatalf("Append: %v", err)
				}
			}
			if err := tw.Close(); err != nil {
				t.Fatalf("Close: %v", err)
			}
			if tw.BlocksLen() < 100 {
				t.Fatalf("expected many blocks, got %d", tw.BlocksLen())
			}

			tr, err := table.NewReader(bytes.NewReader(buf.Bytes()), int64(buf.Len()), storage.FileDesc{Type: storage.TypeTable, Num: 1}, nil, nil, o)
			if err != nil {
				t.Fatalf("NewReader: %v", err)
			}
			defer tr.Release()

			// Full iteration is unaffected by the filter.
			it := tr.NewIterator(nil, nil)
			i := 0
			for it.Next() {
				if i >= n || !bytes.Equal(it.Key(), keys[i]) || !bytes.Equal(it.Value(), vals[i]) {
					t.Fatalf("iteration: entry %d mismatch: %q", i, it.Key())
				}
				i++
			}
			it.Release()
			if err := it.Error(); err != nil || i != n {
				t.Fatalf("iteration: got %d entries, err=%v", i, err)
			}

			// Exact lookups through the filter (what DB.Get does).
			missing := 0
			for i := range keys {
				rkey, rval, err := tr.Find(keys[i], true, nil)
				if err != nil {
					if missing < 5 {
						t.Errorf("Find(%q, filtered): %v", keys[i], err)
					}
					missing++
					continue
				}
				if !bytes.Equal(rkey, keys[i]) || !bytes.Equal(rval, vals[i]) {
					t.Errorf("Find(%q, filtered): got %q/%q", keys[i], rkey, rval)
				}
			}
			if missing > 0 {
				t.Errorf("%d of %d written keys are not found by filtered exact lookup", missing, n)
			}
		})
	}
}


// obligation table.NewReader:post(C13:data-area-ends-where-the-first-meta-block-starts)
// Approximate offsets reported by a table reader must never decrease as the
// probe key grows, whatever the filter setting of the table is.
func TestApproximateOffsetsNeverDecreaseWithAFilter(t *testing.T) {
	for _, flt := range []filter.Filter{nil, filter.NewBloomFilter(10)} {
		name := "nofilter"
		if flt != nil {
			name = "bloom"
		}
		t.Run(name, func(t *testing.T) {
			o := &opt.Options{
				BlockSize:            256,
				BlockRestartInterval: 4,
				Compression:          opt.NoCompression,
				Filter:               flt,
			}
			buf := &bytes.Buffer{}
			tw := table.NewWriter(buf, o, nil, 0)
			var keys [][]byte
			for i := 0; i < 400; i++ {
				k := []byte(fmt.Sprintf("key%05d", i*2))
				keys = append(keys, k)
				if err := tw.Append(k, bytes.Repeat([]byte{'v'}, 40)); err != nil {
					t.Fatal(err)
				}
			}
			if err := tw.Close(); err != nil {
				t.Fatal(err)
			}
			tr, err := table.NewReader(bytes.NewReader(buf.Bytes()), int64(buf.Len()), storage.FileDesc{}, nil, nil, o)
			if err != nil {
				t.Fatal(err)
			}
			defer tr.Release()

			// Probe: before first, every key, between keys, and past the last key.
			probes := [][]byte{[]byte(""), []byte("a")}
			for i := 0; i < 400; i++ {
				probes = append(probes, keys[i], []byte(fmt.Sprintf("key%05d", i*2+1)))
			}
			probes = append(probes, []byte("key99999"), []byte("zzz"), []byte{0xff, 0xff})

			var prev int64
			var prevKey []byte
			for _, p := range probes {
				off, err := tr.OffsetOf(p)
				if err != nil {
					t.Fatalf("OffsetOf(%q): %v", p, err)
				}
				if off < prev {
					t.Fatalf("approximate offset decreased: OffsetOf(%q)=%d but OffsetOf(%q)=%d", prevKey, prev, p, off)
				}
				if off > int64(buf.Len()) {
					t.Fatalf("OffsetOf(%q)=%d exceeds table size %d", p, off, buf.Len())
				}
				prev, prevKey = off, p
			}
			if prev == 0 {
				t.Fatalf("offset past the last key is 0 for a %d-byte table", buf.Len())
			}
		})
	}
}


// obligation table.(*Reader).Find:assert(C13,C16:filter-used-only-when-the-caller-allows-it ...)
// First-key->= lookups (Reader.Find with filtered=false) must return the first
// stored pair whose key is >= the probe, whatever the filter setting of the
// table is. The filter may only be consulted when the caller asks for it
// (filtered=true), because a filter answers "is exactly this key present" and
// says nothing about the successor of an absent key.
func TestFirstKeyNotSmallerLookupIgnoresTheFilter(t *testing.T) {
	// Stored keys: k0000, k0010, k0020, ... ; probes: every k00NN in between
	// and around.
	var keys []string
	for i := 0; i < 40; i++ {
		keys = append(keys, fmt.Sprintf("k%04d", i*10))
	}
	valueOf := func(k string) []byte { return []byte("value-of-" + k) }

	for _, filt := range []filter.Filter{nil, filter.NewBloomFilter(10)} {
		for _, compression := range []opt.Compression{opt.NoCompression, opt.SnappyCompression} {
			for _, restart := range []int{1, 4, 16} {
				for _, blockSize := range []int{64, 300, 4096} {
					name := fmt.Sprintf("filter=%v/compression=%v/restart=%d/blockSize=%d", filt != nil, compression, restart, blockSize)
					o := &opt.Options{
						Comparer:             comparer.DefaultComparer,
						Filter:               filt,
						Compression:          compression,
						BlockRestartInterval: restart,
						BlockSize:            blockSize,
						Strict:               opt.StrictBlockChecksum,
					}

					buf := &bytes.Buffer{}
					tw := table.NewWriter(buf, o, nil, 0)
					for _, k := range keys {
						if err := tw.Append([]byte(k), valueOf(k)); err != nil {
							t.Fatalf("%s: Append(%q): %v", name, k, err)
						}
					}
					if err := tw.Close(); err != nil {
						t.Fatalf("%s: Close: %v", name, err)
					}
					tr, err := table.NewReader(bytes.NewReader(buf.Bytes()), int64(buf.Len()), storage.FileDesc{Type: storage.TypeTable, Num: 1}, nil, nil, o)
					if err != nil {
						t.Fatalf("%s: NewReader: %v", name, err)
					}

					bad := 0
					for p := 0; p < 400; p++ {
						probe := fmt.Sprintf("k%04d", p)
						// Model answer: first stored key >= probe.
						i := sort.SearchStrings(keys, probe)

						rkey, rvalue, err := tr.Find([]byte(probe), false, nil)
						switch {
						case i == len(keys):
							if err != table.ErrNotFound {
								bad++
								t.Errorf("%s: Find(%q) = %q, %v; want ErrNotFound (probe is after the last key)", name, probe, rkey, err)
							}
						case err != nil:
							bad++
							if bad <= 5 {
								t.Errorf("%s: Find(%q) failed: %v; want key %q", name, probe, err, keys[i])
							}
						case string(rkey) != keys[i] || !bytes.Equal(rvalue, valueOf(keys[i])):
							bad++
							t.Errorf("%s: Find(%q) = %q/%q; want key %q", name, probe, rkey, rvalue, keys[i])
						}

						// The key-only variant must agree.
						fkey, ferr := tr.FindKey([]byte(probe), false, nil)
						if i < len(keys) && (ferr != nil || string(fkey) != keys[i]) {
							bad++
							t.Errorf("%s: FindKey(%q) = %q, %v; want key %q", name, probe, fkey, ferr, keys[i])
						}
					}
					if bad > 5 {
						t.Errorf("%s: %d wrong first-key->= lookups in total", name, bad)
					}
					tr.Release()
				}
			}
		}
	}
}
