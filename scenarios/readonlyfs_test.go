package scenarios

import (
	"github.com/syndtr/goleveldb/leveldb"
	"bytes"
	"fmt"
	"io/ioutil"
	"os"
	"path/filepath"
	"sort"
	"strings"
	"testing"

	"github.com/syndtr/goleveldb/leveldb/opt"
	"github.com/syndtr/goleveldb/leveldb/util"
)

// scnRODirState returns a printable description (name, size, mtime, full
// content) of every entry in dir, sorted by name.
func scnRODirState(t *testing.T, dir string) string {
	infos, err := ioutil.ReadDir(dir)
	if err != nil {
		t.Fatalf("ReadDir: %v", err)
	}
	var lines []string
	for _, fi := range infos {
		b, err := ioutil.ReadFile(filepath.Join(dir, fi.Name()))
		if err != nil {
			t.Fatalf("ReadFile %s: %v", fi.Name(), err)
		}
		lines = append(lines, fmt.Sprintf("%s size=%d mtime=%d content=%x", fi.Name(), fi.Size(), fi.ModTime().UnixNano(), b))
	}
	sort.Strings(lines)
	return strings.Join(lines, "\n")
}

func scnRODirNames(t *testing.T, dir string) []string {
	infos, err := ioutil.ReadDir(dir)
	if err != nil {
		t.Fatalf("ReadDir: %v", err)
	}
	var names []string
	for _, fi := range infos {
		names = append(names, fi.Name())
	}
	sort.Strings(names)
	return names
}

// A DB opened read-only must not create, modify, rename or delete any stored
// file, even when the directory carries the leftovers of an interrupted
// CURRENT update (a 'pending rename' CURRENT.<num> file, or only CURRENT.bak),
// and must still serve everything, including data that is only in the journal.
// obligation storage.(*fileStorage).GetMeta:post(C18:read-only-storage-repairs-nothing)
func TestReadOnlyOpenLeavesCurrentLeftoversAlone(t *testing.T) {
	scenarios := []struct {
		name    string
		prepare func(t *testing.T, dir string)
	}{
		{
			// Crash after CURRENT.<num> was written but before it was
			// renamed over CURRENT.
			name: "pending-rename",
			prepare: func(t *testing.T, dir string) {
				b, err := ioutil.ReadFile(filepath.Join(dir, "CURRENT"))
				if err != nil {
					t.Fatal(err)
				}
				var num int64
				if _, err := fmt.Sscanf(string(b), "MANIFEST-%d\n", &num); err != nil {
					t.Fatalf("cannot parse CURRENT %q: %v", b, err)
				}
				if err := ioutil.WriteFile(filepath.Join(dir, fmt.Sprintf("CURRENT.%d", num)), b, 0644); err != nil {
					t.Fatal(err)
				}
			},
		},
		{
			// CURRENT lost, only its backup is left.
			name: "only-backup",
			prepare: func(t *testing.T, dir string) {
				if err := os.Rename(filepath.Join(dir, "CURRENT"), filepath.Join(dir, "CURRENT.bak")); err != nil {
					t.Fatal(err)
				}
			},
		},
	}

	for _, sc := range scenarios {
		sc := sc
		t.Run(sc.name, func(t *testing.T) {
			dir, err := ioutil.TempDir("", "scn-c18c-")
			if err != nil {
				t.Fatal(err)
			}
			defer os.RemoveAll(dir)

			// Populate: some data flushed to a table, some only in the journal.
			db, err := leveldb.OpenFile(dir, nil)
			if err != nil {
				t.Fatalf("OpenFile: %v", err)
			}
			if err := db.Put([]byte("table-key"), []byte("table-value"), nil); err != nil {
				t.Fatal(err)
			}
			if err := db.CompactRange(util.Range{}); err != nil {
				t.Fatal(err)
			}
			if err := db.Put([]byte("journal-key"), []byte("journal-value"), &opt.WriteOptions{Sync: true}); err != nil {
				t.Fatal(err)
			}
			if err := db.Close(); err != nil {
				t.Fatalf("Close: %v", err)
			}

			sc.prepare(t, dir)

			before := scnRODirState(t, dir)
			namesBefore := scnRODirNames(t, dir)

			// Read-only open, read, close.
			ro, err := leveldb.OpenFile(dir, &opt.Options{ReadOnly: true})
			if err != nil {
				t.Fatalf("read-only OpenFile: %v", err)
			}
			for k, want := range map[string]string{"table-key": "table-value", "journal-key": "journal-value"} {
				got, err := ro.Get([]byte(k), nil)
				if err != nil || !bytes.Equal(got, []byte(want)) {
					t.Errorf("read-only Get(%q) = %q, %v; want %q", k, got, err, want)
				}
			}
			if err := ro.Put([]byte("x"), []byte("y"), nil); err != leveldb.ErrReadOnly {
				t.Errorf("read-only Put: got %v, want leveldb.ErrReadOnly", err)
			}
			if err := ro.Close(); err != nil {
				t.Fatalf("read-only Close: %v", err)
			}

			after := scnRODirState(t, dir)
			namesAfter := scnRODirNames(t, dir)
			if before != after {
				t.Errorf("read-only open mutated the DB directory:\n files before: %v\n files after:  %v", namesBefore, namesAfter)
			}
		})
	}
}
