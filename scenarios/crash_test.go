package scenarios

// Crash replay: a storage that logs every mutating operation; image(n) is what a disk holds if the machine dies
// after the first n operations (a file keeps only what was written before its last Sync; Create / Remove /
// Rename / SetMeta take effect in issue order).

import (
	"bytes"
	"os"
	"fmt"
	"sort"
	"strings"
	"sync"
	"testing"

	"github.com/syndtr/goleveldb/leveldb"
	"github.com/syndtr/goleveldb/leveldb/opt"
	"github.com/syndtr/goleveldb/leveldb/storage"
)

type crashOp struct {
	kind    string // create write sync remove rename setmeta
	fd, fd2 storage.FileDesc
	data    []byte
}

func (o crashOp) String() string {
	switch o.kind {
	case "write":
		return fmt.Sprintf("write(%v,%dB)", o.fd, len(o.data))
	case "rename":
		return fmt.Sprintf("rename(%v->%v)", o.fd, o.fd2)
	}
	return fmt.Sprintf("%s(%v)", o.kind, o.fd)
}

type diskImage struct {
	files   map[storage.FileDesc][]byte
	meta    storage.FileDesc
	hasMeta bool
}

type crashStorage struct {
	storage.Storage
	base *diskImage
	mu   sync.Mutex
	ops  []crashOp
}

func newCrashStorage(t *testing.T, base *diskImage) *crashStorage {
	if base == nil {
		base = &diskImage{files: map[storage.FileDesc][]byte{}}
	}
	ms := storage.NewMemStorage()
	for fd, b := range base.files {
		w, err := ms.Create(fd)
		must(t, err)
		_, err = w.Write(b)
		must(t, err)
		must(t, w.Close())
	}
	if base.hasMeta {
		must(t, ms.SetMeta(base.meta))
	}
	return &crashStorage{Storage: ms, base: base}
}

func (s *crashStorage) log(op crashOp) { s.mu.Lock(); s.ops = append(s.ops, op); s.mu.Unlock() }
func (s *crashStorage) n() int        { s.mu.Lock(); defer s.mu.Unlock(); return len(s.ops) }

func (s *crashStorage) SetMeta(fd storage.FileDesc) error {
	err := s.Storage.SetMeta(fd)
	if err == nil {
		s.log(crashOp{kind: "setmeta", fd: fd})
	}
	return err
}
func (s *crashStorage) Create(fd storage.FileDesc) (storage.Writer, error) {
	w, err := s.Storage.Create(fd)
	if err != nil {
		return nil, err
	}
	s.log(crashOp{kind: "create", fd: fd})
	return &crashWriter{Writer: w, s: s, fd: fd}, nil
}
func (s *crashStorage) Remove(fd storage.FileDesc) error {
	err := s.Storage.Remove(fd)
	if err == nil {
		s.log(crashOp{kind: "remove", fd: fd})
	}
	return err
}
func (s *crashStorage) Rename(a, b storage.FileDesc) error {
	err := s.Storage.Rename(a, b)
	if err == nil {
		s.log(crashOp{kind: "rename", fd: a, fd2: b})
	}
	return err
}

type crashWriter struct {
	storage.Writer
	s  *crashStorage
	fd storage.FileDesc
}

func (w *crashWriter) Write(p []byte) (int, error) {
	n, err := w.Writer.Write(p)
	if n > 0 {
		w.s.log(crashOp{kind: "write", fd: w.fd, data: append([]byte(nil), p[:n]...)})
	}
	return n, err
}
func (w *crashWriter) Sync() error {
	err := w.Writer.Sync()
	if err == nil {
		w.s.log(crashOp{kind: "sync", fd: w.fd})
	}
	return err
}

func (s *crashStorage) image(n int) *diskImage {
	s.mu.Lock()
	ops := append([]crashOp(nil), s.ops[:n]...)
	s.mu.Unlock()
	type file struct {
		data   []byte
		synced int
	}
	files := map[storage.FileDesc]*file{}
	for fd, b := range s.base.files {
		files[fd] = &file{data: append([]byte(nil), b...), synced: len(b)}
	}
	meta, hasMeta := s.base.meta, s.base.hasMeta
	for _, op := range ops {
		switch op.kind {
		case "create":
			files[op.fd] = &file{}
		case "write":
			if f := files[op.fd]; f != nil {
				f.data = append(f.data, op.data...)
			}
		case "sync":
			if f := files[op.fd]; f != nil {
				f.synced = len(f.data)
			}
		case "remove":
			delete(files, op.fd)
		case "rename":
			if f := files[op.fd]; f != nil {
				delete(files, op.fd)
				files[op.fd2] = f
			}
		case "setmeta":
			meta, hasMeta = op.fd, true
		}
	}
	img := &diskImage{files: map[storage.FileDesc][]byte{}, meta: meta, hasMeta: hasMeta}
	for fd, f := range files {
		img.files[fd] = append([]byte(nil), f.data[:f.synced]...)
	}
	return img
}

func dump(t *testing.T, db *leveldb.DB) map[string]string {
	got := map[string]string{}
	it := db.NewIterator(nil, nil)
	for it.Next() {
		got[string(it.Key())] = string(it.Value())
	}
	it.Release()
	must(t, it.Error())
	return got
}

func diffMaps(want, got map[string]string) string {
	var msgs []string
	for k, v := range want {
		if g, ok := got[k]; !ok {
			msgs = append(msgs, "missing "+k)
		} else if g != v {
			msgs = append(msgs, "wrong value for "+k)
		}
	}
	for k := range got {
		if _, ok := want[k]; !ok {
			msgs = append(msgs, "unexpected "+k)
		}
	}
	sort.Strings(msgs)
	return strings.Join(msgs, "; ")
}

// obligation leveldb.(*DB).recoverJournal:assert(C04:journal-removed-only-after-its-commit) /
// assert(C04:recovery-commit-carries-numbers)
// Synced batches, crash, recovery, crash at every instant of that recovery, reopen: every synced batch is there.
func TestCrashDuringRecoveryKeepsSyncedWrites(t *testing.T) {
	o := &opt.Options{DisableLargeBatchTransaction: true}
	st1 := newCrashStorage(t, nil)
	db, err := leveldb.Open(st1, o)
	must(t, err)
	model := map[string]string{}
	for i := 0; i < 8; i++ {
		b := new(leveldb.Batch)
		for j := 0; j < 3; j++ {
			k, v := fmt.Sprintf("key-%02d-%d", i, j), fmt.Sprintf("value-%02d-%d", i, j)
			b.Put([]byte(k), []byte(v))
			model[k] = v
		}
		if i > 0 {
			k := fmt.Sprintf("key-%02d-%d", i-1, 1)
			b.Delete([]byte(k))
			delete(model, k)
		}
		must(t, db.Write(b, &opt.WriteOptions{Sync: true}))
	}
	imgA := st1.image(st1.n()) // the machine dies here
	db.Close()

	st2 := newCrashStorage(t, imgA)
	db, err = leveldb.Open(st2, o) // journal recovery
	must(t, err)
	nRecovery := st2.n()
	if d := diffMaps(model, dump(t, db)); d != "" {
		t.Fatalf("content differs after the first recovery: %s", d)
	}
	db.Close()

	bad := 0
	for n := 0; n <= nRecovery; n++ {
		last := "(start)"
		if n > 0 {
			last = st2.ops[n-1].String()
		}
		st3 := newCrashStorage(t, st2.image(n))
		db, err := leveldb.Open(st3, o)
		if err != nil {
			t.Errorf("crash after recovery op #%d %s: reopen failed: %v", n, last, err)
			bad++
			continue
		}
		if d := diffMaps(model, dump(t, db)); d != "" {
			t.Errorf("crash after recovery op #%d %s: synced writes lost: %s", n, last, d)
			bad++
		}
		db.Close()
	}
	if bad > 0 {
		t.Fatalf("%d crash points of the recovery lose acknowledged, synced writes", bad)
	}
}

// obligation leveldb.(*DB).recoverJournal:assert(C04:highest-replayed-journal-number-is-retired)
// Crash at every instant of a run that rotates the journal; recover; write with Sync; crash again; reopen: the
// write acknowledged after the recovery is there (the recovery must not hand out a file number that one of the
// journals it replays already has).
func TestSyncedWriteAfterRecoverySurvivesCrash(t *testing.T) {
	o := &opt.Options{DisableBlockCache: true, WriteBuffer: 32 << 10}
	st1 := newCrashStorage(t, nil)
	db, err := leveldb.Open(st1, o)
	must(t, err)
	val := make([]byte, 1024)
	// a discarded transaction that spilled two tables: a file number is consumed without reaching the manifest
	tr, err := db.OpenTransaction()
	must(t, err)
	for i := 0; i < 80; i++ {
		must(t, tr.Put([]byte{'t', byte(i)}, val, nil))
	}
	tr.Discard()
	// an unsynced write, then a journal rotation (opening a transaction rotates a non-empty memdb)
	must(t, db.Put([]byte("unsynced"), []byte("v"), nil))
	tr, err = db.OpenTransaction()
	must(t, err)
	tr.Discard()
	n1 := st1.n()
	db.Close()
	bad := 0
	for n := 0; n <= n1; n++ {
		st2 := newCrashStorage(t, st1.image(n))
		db, err := leveldb.Open(st2, o)
		if err != nil {
			continue // images before the DB was fully created cannot be opened: not this scenario
		}
		if err := db.Put([]byte("after"), []byte("recovery"), &opt.WriteOptions{Sync: true}); err != nil {
			db.Close()
			continue
		}
		img := st2.image(st2.n()) // the machine dies right after the acknowledged write
		db.Close()
		st3 := newCrashStorage(t, img)
		db, err = leveldb.Open(st3, o)
		if err != nil {
			t.Errorf("crash point %d: second reopen failed: %v", n, err)
			bad++
			continue
		}
		if v, err := db.Get([]byte("after"), nil); err != nil || string(v) != "recovery" {
			last := "(start)"
			if n > 0 {
				last = st1.ops[n-1].String()
			}
			t.Errorf("crash after op #%d %s: the write acknowledged with Sync after the recovery is lost: %q, %v", n, last, v, err)
			bad++
		}
		db.Close()
	}
	if bad > 0 {
		t.Fatalf("%d crash points lose a synced write made after recovery", bad)
	}
}

// obligation leveldb.(*DB).recoverJournalRO (C18): a DB opened read-only serves all previously written data including
// data still only in the journal - whatever the state the previous run left behind. Crash at every instant of a run
// that rotates its journal several times; every disk image must open read-only (unless there is no DB in it yet)
// and show what a normal open of the same image shows.
func TestReadOnlyOpenOfEveryCrashImageServesTheJournals(t *testing.T) {
	o := &opt.Options{DisableLargeBatchTransaction: true, WriteBuffer: 8 << 10}
	ro := &opt.Options{DisableLargeBatchTransaction: true, WriteBuffer: 8 << 10, ReadOnly: true}
	st := newCrashStorage(t, nil)
	db, err := leveldb.Open(st, o)
	must(t, err)
	val := bytes.Repeat([]byte("v"), 300)
	for i := 0; i < 120; i++ {
		must(t, db.Put([]byte(fmt.Sprintf("key-%04d", i)), val, &opt.WriteOptions{Sync: true}))
	}
	total := st.n()
	db.Close()
	bad := 0
	for n := 0; n <= total && bad < 5; n++ {
		img := st.image(n)
		rw, err := leveldb.Open(newCrashStorage(t, img), o)
		if err != nil {
			continue // C04's business, checked elsewhere
		}
		want := dump(t, rw)
		rw.Close()
		rdb, err := leveldb.Open(newCrashStorage(t, img), ro)
		if err != nil {
			if os.IsNotExist(err) && len(want) == 0 {
				continue // no DB in the image yet
			}
			t.Errorf("image after op #%d: read-only open failed: %v (a normal open shows %d keys)", n, err, len(want))
			bad++
			continue
		}
		if d := diffMaps(want, dump(t, rdb)); d != "" {
			t.Errorf("image after op #%d: read-only open shows other data than a normal open: %s", n, d)
			bad++
		}
		rdb.Close()
	}
}
