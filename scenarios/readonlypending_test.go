package scenarios

import (
	"errors"
	"runtime"
	"sync/atomic"
	"testing"
	"time"

	"github.com/syndtr/goleveldb/leveldb"
	"github.com/syndtr/goleveldb/leveldb/storage"
)

// roPendFaultStorage wraps a storage.Storage; while failManifest is set every
// Write and Sync on a manifest file fails.
type roPendFaultStorage struct {
	storage.Storage
	failManifest int32
}

var errRoPendInjected = errors.New("injected manifest write failure")

type roPendFaultWriter struct {
	storage.Writer
	s *roPendFaultStorage
}

func (w *roPendFaultWriter) Write(p []byte) (int, error) {
	if atomic.LoadInt32(&w.s.failManifest) != 0 {
		return 0, errRoPendInjected
	}
	return w.Writer.Write(p)
}

func (w *roPendFaultWriter) Sync() error {
	if atomic.LoadInt32(&w.s.failManifest) != 0 {
		return errRoPendInjected
	}
	return w.Writer.Sync()
}

func (s *roPendFaultStorage) Create(fd storage.FileDesc) (storage.Writer, error) {
	w, err := s.Storage.Create(fd)
	if err != nil || fd.Type != storage.TypeManifest {
		return w, err
	}
	return &roPendFaultWriter{Writer: w, s: s}, nil
}

func roPendStacks() string {
	buf := make([]byte, 1<<20)
	return string(buf[:runtime.Stack(buf, true)])
}

// SetReadOnly is called while a transient compaction error is pending (the
// memdb flush cannot commit because manifest writes fail). Afterwards a Put
// must fail at once with leveldb.ErrReadOnly, and Close must return.
// obligation leveldb.(*DB).compactionError:inv-pres(loop 2, C09:a-read-only-request-is-never-held-as-a-transient-error)
func TestSetReadOnlyWhileACompactionErrorIsPending(t *testing.T) {
	stor := &roPendFaultStorage{Storage: storage.NewMemStorage()}
	db, err := leveldb.Open(stor, nil)
	if err != nil {
		t.Fatal(err)
	}

	if err := db.Put([]byte("k1"), []byte("v1"), nil); err != nil {
		t.Fatal(err)
	}

	// Manifest writes fail from now on. OpenTransaction flushes the memdb and
	// waits for the flush: the flush writes its table, cannot commit it, and
	// keeps retrying (with backoff); OpenTransaction reports the error.
	atomic.StoreInt32(&stor.failManifest, 1)
	if tr, err := db.OpenTransaction(); err == nil {
		tr.Discard()
		t.Fatal("OpenTransaction succeeded although manifest writes fail")
	} else {
		t.Logf("OpenTransaction: %v (expected: injected error)", err)
	}

	// Make the DB read-only while that transient error is pending.
	roDone := make(chan error, 1)
	go func() { roDone <- db.SetReadOnly() }()
	select {
	case err := <-roDone:
		if err != nil {
			t.Fatalf("SetReadOnly: %v", err)
		}
	case <-time.After(10 * time.Second):
		t.Fatalf("SetReadOnly did not return within 10s; goroutines:\n%s", roPendStacks())
	}

	// The injected failures stop here (not required, just to show that the
	// situation does not heal).
	atomic.StoreInt32(&stor.failManifest, 0)

	// A write must now be refused immediately with the persistent error.
	putDone := make(chan error, 1)
	go func() { putDone <- db.Put([]byte("k2"), []byte("v2"), nil) }()
	putHung := false
	select {
	case err := <-putDone:
		if err != leveldb.ErrReadOnly {
			t.Errorf("Put after SetReadOnly: got %v, want %v", err, leveldb.ErrReadOnly)
		}
	case <-time.After(10 * time.Second):
		putHung = true
		t.Errorf("Put after SetReadOnly did not return within 10s; goroutines:\n%s", roPendStacks())
	}

	// Reads keep working.
	if v, err := db.Get([]byte("k1"), nil); err != nil || string(v) != "v1" {
		t.Errorf("Get(k1) = %q, %v", v, err)
	}

	// Close must return (and releases the Put above if it was stuck).
	closeDone := make(chan error, 1)
	go func() { closeDone <- db.Close() }()
	select {
	case err := <-closeDone:
		t.Logf("Close returned %v", err)
	case <-time.After(15 * time.Second):
		t.Fatalf("DB.Close did not return within 15s; goroutines:\n%s", roPendStacks())
	}
	if putHung {
		select {
		case err := <-putDone:
			t.Logf("the stuck Put was released by Close: %v", err)
		case <-time.After(5 * time.Second):
			t.Errorf("the stuck Put is still blocked after Close")
		}
	}
}
