package scenarios

import (
	"bytes"
	"io"
	"io/ioutil"
	"testing"

	"github.com/syndtr/goleveldb/leveldb/journal"
)

// A journal reader that is reused through Reset with checksums switched on
// must verify checksums: a flipped payload byte must never come back as a
// record.
// obligation journal.(*Reader).Reset:post(reads-the-new-source-with-the-new-settings)
func TestJournalReaderResetTakesTheNewChecksumSetting(t *testing.T) {
	records := [][]byte{
		bytes.Repeat([]byte("a"), 100),
		bytes.Repeat([]byte("b"), 200),
		bytes.Repeat([]byte("c"), 300),
	}
	buf := new(bytes.Buffer)
	w := journal.NewWriter(buf)
	for _, rec := range records {
		ww, err := w.Next()
		if err != nil {
			t.Fatal(err)
		}
		if _, err := ww.Write(rec); err != nil {
			t.Fatal(err)
		}
		if err := w.Flush(); err != nil {
			t.Fatal(err)
		}
	}
	if err := w.Close(); err != nil {
		t.Fatal(err)
	}
	clean := append([]byte(nil), buf.Bytes()...)

	// Damage one payload byte of the second record
	// (7 header + 100 payload + 7 header = 114 is its first payload byte).
	damaged := append([]byte(nil), clean...)
	damaged[114+50] ^= 0x40

	written := func(x []byte) bool {
		for _, rec := range records {
			if bytes.Equal(rec, x) {
				return true
			}
		}
		return false
	}

	for _, strict := range []bool{false, true} {
		// First use of the reader: a pass without checksum verification
		// over the clean stream.
		r := journal.NewReader(bytes.NewReader(clean), nil, false, false)
		for {
			rr, err := r.Next()
			if err == io.EOF {
				break
			}
			if err != nil {
				t.Fatal(err)
			}
			if _, err := io.Copy(ioutil.Discard, rr); err != nil {
				t.Fatal(err)
			}
		}

		// Reuse it, now with checksums on, over the damaged stream.
		if err := r.Reset(bytes.NewReader(damaged), nil, strict, true); err != nil && err != io.EOF {
			t.Fatal(err)
		}
		var gotErr error
		n := 0
		for {
			rr, err := r.Next()
			if err == io.EOF {
				break
			}
			if err != nil {
				gotErr = err
				break
			}
			x, err := ioutil.ReadAll(rr)
			if err != nil {
				if strict {
					gotErr = err
					break
				}
				continue
			}
			if !written(x) {
				t.Fatalf("strict=%v: reader with checksums on yielded a record that was never written (len %d)", strict, len(x))
			}
			n++
		}
		if strict {
			if gotErr == nil {
				t.Fatalf("strict=%v: damaged stream read without a corruption error", strict)
			}
		} else if n > 1 {
			// Everything from the damaged chunk to the end of its block is dropped.
			t.Fatalf("strict=%v: got %d records, want 1", strict, n)
		}
	}
}
