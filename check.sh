#!/bin/sh
# usage: check.sh <property-id> [quick|thorough]   |   check.sh --replay <file>
cd "$(dirname "$0")"
export GOFLAGS=-mod=mod GOPROXY=off GOSUMDB=off GOTOOLCHAIN=local
if [ "$1" = "--replay" ]; then
  exec ./bin/gocv replay -file "$2"
fi
ID="$1"
TIER="${2:-${VERIF_TIER:-quick}}"
[ -x bin/gocv ] || ./setup.sh >/dev/null || { echo "ERROR setup failed"; exit 2; }
exec ./bin/gocv check -prop "$ID" -tier "$TIER" -repo /repo -out /verif/out -evidence "/verif/evidence/$ID.json"
