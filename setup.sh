#!/bin/sh
# Builds the verifier from files on disk only (vendored x/tools), then smoke-tests the solvers.
set -e
cd "$(dirname "$0")"
export GOFLAGS=-mod=vendor GOPROXY=off GOSUMDB=off GOTOOLCHAIN=local CGO_ENABLED=0
mkdir -p bin out evidence
go build -o bin/gocv ./cmd/gocv
printf '(set-logic ALL)\n(declare-const x Int)\n(assert (> x 0))\n(assert (< x 0))\n(check-sat)\n' > out/smoke.smt2
for s in z3 z3-new cvc5; do
  r=$($s out/smoke.smt2 2>&1 | head -1)
  [ "$r" = "unsat" ] || { echo "solver $s smoke test failed: $r"; exit 1; }
done
echo "setup ok"
