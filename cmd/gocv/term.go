package main

// SMT terms: construction with light simplification, printing.

import (
	"fmt"
	"math/big"
	"sort"
	"strings"
)

type Sort string

const (
	SInt   Sort = "Int"
	SBool  Sort = "Bool"
	SBytes Sort = "Bytes" // abstract byte-sequence values (declare-sort)
	SKey   Sort = "Real"  // rank-encoded abstract keys
)

func SBV(w int) Sort           { return Sort(fmt.Sprintf("(_ BitVec %d)", w)) }
func SArr(i, e Sort) Sort      { return Sort("(Array " + string(i) + " " + string(e) + ")") }
func (s Sort) IsBV() bool      { return strings.HasPrefix(string(s), "(_ BitVec") }
func (s Sort) IsArr() bool     { return strings.HasPrefix(string(s), "(Array") }
func (s Sort) BVWidth() int    { var w int; fmt.Sscanf(string(s), "(_ BitVec %d)", &w); return w }
func (s Sort) ArrParts() (Sort, Sort) {
	// "(Array I E)" — split at top level
	body := strings.TrimSuffix(strings.TrimPrefix(string(s), "(Array "), ")")
	depth := 0
	for i, c := range body {
		switch c {
		case '(':
			depth++
		case ')':
			depth--
		case ' ':
			if depth == 0 {
				return Sort(body[:i]), Sort(body[i+1:])
			}
		}
	}
	panic("bad array sort " + string(s))
}

type Term struct {
	Op    string // "var" "int" "bvc" "true" "false" "app" or an SMT operator
	Name  string // for var/app
	Args  []*Term
	Sort  Sort
	Val   *big.Int // int / bvc
	Bound []*Term  // quantifier variables
	Pats  [][]*Term
}

var (
	TTrue  = &Term{Op: "true", Sort: SBool}
	TFalse = &Term{Op: "false", Sort: SBool}
)

func Var(name string, s Sort) *Term { return &Term{Op: "var", Name: name, Sort: s} }
func IntC(v int64) *Term           { return &Term{Op: "int", Val: big.NewInt(v), Sort: SInt} }
func IntBig(v *big.Int) *Term      { return &Term{Op: "int", Val: new(big.Int).Set(v), Sort: SInt} }
func BVC(v *big.Int, w int) *Term {
	m := new(big.Int).Lsh(big.NewInt(1), uint(w))
	x := new(big.Int).Mod(v, m)
	return &Term{Op: "bvc", Val: x, Sort: SBV(w)}
}
func BoolC(b bool) *Term {
	if b {
		return TTrue
	}
	return TFalse
}
func App(name string, s Sort, args ...*Term) *Term {
	return &Term{Op: "app", Name: name, Args: args, Sort: s}
}
func Op(op string, s Sort, args ...*Term) *Term { return &Term{Op: op, Args: args, Sort: s} }

func (t *Term) IsConst() bool { return t.Op == "int" || t.Op == "bvc" || t.Op == "true" || t.Op == "false" }
func (t *Term) IsTrue() bool  { return t.Op == "true" }
func (t *Term) IsFalse() bool { return t.Op == "false" }

func Not(a *Term) *Term {
	switch a.Op {
	case "true":
		return TFalse
	case "false":
		return TTrue
	case "not":
		return a.Args[0]
	}
	return Op("not", SBool, a)
}
func And(as ...*Term) *Term {
	var out []*Term
	for _, a := range as {
		if a == nil || a.IsTrue() {
			continue
		}
		if a.IsFalse() {
			return TFalse
		}
		if a.Op == "and" {
			out = append(out, a.Args...)
		} else {
			out = append(out, a)
		}
	}
	if len(out) == 0 {
		return TTrue
	}
	if len(out) == 1 {
		return out[0]
	}
	return Op("and", SBool, out...)
}
func Or(as ...*Term) *Term {
	var out []*Term
	for _, a := range as {
		if a == nil || a.IsFalse() {
			continue
		}
		if a.IsTrue() {
			return TTrue
		}
		if a.Op == "or" {
			out = append(out, a.Args...)
		} else {
			out = append(out, a)
		}
	}
	if len(out) == 0 {
		return TFalse
	}
	if len(out) == 1 {
		return out[0]
	}
	return Op("or", SBool, out...)
}
func Implies(a, b *Term) *Term {
	if a.IsTrue() {
		return b
	}
	if a.IsFalse() || b.IsTrue() {
		return TTrue
	}
	if b.IsFalse() {
		return Not(a)
	}
	return Op("=>", SBool, a, b)
}
func Ite(c, a, b *Term) *Term {
	if c.IsTrue() {
		return a
	}
	if c.IsFalse() {
		return b
	}
	if termEq(a, b) {
		return a
	}
	if a.Sort == SBool {
		if a.IsTrue() && b.IsFalse() {
			return c
		}
		if a.IsFalse() && b.IsTrue() {
			return Not(c)
		}
	}
	return Op("ite", a.Sort, c, a, b)
}
func Eq(a, b *Term) *Term {
	if a.Sort != b.Sort {
		panic(fmt.Sprintf("Eq sort mismatch: %s:%s vs %s:%s", a, a.Sort, b, b.Sort))
	}
	if a.IsConst() && b.IsConst() {
		if a.Sort == SBool {
			return BoolC(a.Op == b.Op)
		}
		return BoolC(a.Val.Cmp(b.Val) == 0)
	}
	if termEq(a, b) {
		return TTrue
	}
	if a.Sort == SBool {
		if b.IsTrue() {
			return a
		}
		if b.IsFalse() {
			return Not(a)
		}
		if a.IsTrue() {
			return b
		}
		if a.IsFalse() {
			return Not(b)
		}
	}
	return Op("=", SBool, a, b)
}
func Neq(a, b *Term) *Term { return Not(Eq(a, b)) }

// termEq is a cheap syntactic equality.
func termEq(a, b *Term) bool {
	if a == b {
		return true
	}
	if a.Op != b.Op || a.Name != b.Name || a.Sort != b.Sort || len(a.Args) != len(b.Args) {
		return false
	}
	if a.Op == "forall" || a.Op == "exists" {
		return false
	}
	if a.Val != nil || b.Val != nil {
		if a.Val == nil || b.Val == nil || a.Val.Cmp(b.Val) != 0 {
			return false
		}
	}
	for i := range a.Args {
		if !termEq(a.Args[i], b.Args[i]) {
			return false
		}
	}
	return true
}

// Integer arithmetic (sort Int) with constant folding.
func IAdd(a, b *Term) *Term {
	if a.Op == "int" && b.Op == "int" {
		return IntBig(new(big.Int).Add(a.Val, b.Val))
	}
	if a.Op == "int" && a.Val.Sign() == 0 {
		return b
	}
	if b.Op == "int" && b.Val.Sign() == 0 {
		return a
	}
	// (x + c1) + c2
	if b.Op == "int" && a.Op == "+" && len(a.Args) == 2 && a.Args[1].Op == "int" {
		return IAdd(a.Args[0], IntBig(new(big.Int).Add(a.Args[1].Val, b.Val)))
	}
	if b.Op == "int" && a.Op == "-" && len(a.Args) == 2 && a.Args[1].Op == "int" {
		return IAdd(a.Args[0], IntBig(new(big.Int).Sub(b.Val, a.Args[1].Val)))
	}
	if b.Op == "int" && b.Val.Sign() < 0 {
		return Op("-", SInt, a, IntBig(new(big.Int).Neg(b.Val)))
	}
	return Op("+", SInt, a, b)
}
func ISub(a, b *Term) *Term {
	if b.Op == "int" {
		return IAdd(a, IntBig(new(big.Int).Neg(b.Val)))
	}
	if termEq(a, b) {
		return IntC(0)
	}
	// (x + y) - x
	if a.Op == "+" && len(a.Args) == 2 {
		if termEq(a.Args[0], b) {
			return a.Args[1]
		}
		if termEq(a.Args[1], b) {
			return a.Args[0]
		}
	}
	return Op("-", SInt, a, b)
}
func IMul(a, b *Term) *Term {
	if a.Op == "int" && b.Op == "int" {
		return IntBig(new(big.Int).Mul(a.Val, b.Val))
	}
	if a.Op == "int" && a.Val.Cmp(big.NewInt(1)) == 0 {
		return b
	}
	if b.Op == "int" && b.Val.Cmp(big.NewInt(1)) == 0 {
		return a
	}
	if (a.Op == "int" && a.Val.Sign() == 0) || (b.Op == "int" && b.Val.Sign() == 0) {
		return IntC(0)
	}
	return Op("*", SInt, a, b)
}
func INeg(a *Term) *Term { return ISub(IntC(0), a) }

// SMT-LIB div/mod are Euclidean; callers use them for non-negative operands or handle signs.
func IDivE(a, b *Term) *Term {
	if a.Op == "int" && b.Op == "int" && b.Val.Sign() > 0 && a.Val.Sign() >= 0 {
		return IntBig(new(big.Int).Div(a.Val, b.Val))
	}
	return Op("div", SInt, a, b)
}
func IModE(a, b *Term) *Term {
	if a.Op == "int" && b.Op == "int" && b.Val.Sign() > 0 {
		return IntBig(new(big.Int).Mod(a.Val, b.Val))
	}
	return Op("mod", SInt, a, b)
}
func cmpFold(op string, a, b *Term) *Term {
	if a.Op == "int" && b.Op == "int" {
		c := a.Val.Cmp(b.Val)
		switch op {
		case "<":
			return BoolC(c < 0)
		case "<=":
			return BoolC(c <= 0)
		case ">":
			return BoolC(c > 0)
		case ">=":
			return BoolC(c >= 0)
		}
	}
	if termEq(a, b) {
		return BoolC(op == "<=" || op == ">=")
	}
	return Op(op, SBool, a, b)
}
func ILt(a, b *Term) *Term { return cmpFold("<", a, b) }
func ILe(a, b *Term) *Term { return cmpFold("<=", a, b) }
func IGt(a, b *Term) *Term { return cmpFold(">", a, b) }
func IGe(a, b *Term) *Term { return cmpFold(">=", a, b) }

func Select(arr, idx *Term) *Term {
	_, e := arr.Sort.ArrParts()
	// select(store(a,i,v), j) with syntactically equal / distinct-constant indices
	for arr.Op == "store" {
		if termEq(arr.Args[1], idx) {
			return arr.Args[2]
		}
		if arr.Args[1].IsConst() && idx.IsConst() {
			arr = arr.Args[0]
			continue
		}
		break
	}
	return Op("select", e, arr, idx)
}
func Store(arr, idx, v *Term) *Term {
	_, e := arr.Sort.ArrParts()
	if v.Sort != e {
		panic(fmt.Sprintf("Store sort mismatch: array %s, value %s:%s", arr.Sort, v, v.Sort))
	}
	return Op("store", arr.Sort, arr, idx, v)
}

func Forall(vars []*Term, body *Term) *Term {
	if body.IsTrue() || len(vars) == 0 {
		return body
	}
	return &Term{Op: "forall", Bound: vars, Args: []*Term{body}, Sort: SBool}
}
func Exists(vars []*Term, body *Term) *Term {
	if body.IsFalse() || len(vars) == 0 {
		return body
	}
	return &Term{Op: "exists", Bound: vars, Args: []*Term{body}, Sort: SBool}
}

// ---- bit-vector helpers ----
func bvBin(op string, a, b *Term) *Term {
	if a.Sort != b.Sort {
		panic(fmt.Sprintf("bv op %s sort mismatch %s vs %s (%s, %s)", op, a.Sort, b.Sort, a, b))
	}
	w := a.Sort.BVWidth()
	if a.Op == "bvc" && b.Op == "bvc" {
		m := new(big.Int).Lsh(big.NewInt(1), uint(w))
		r := new(big.Int)
		ok := true
		switch op {
		case "bvadd":
			r.Add(a.Val, b.Val)
		case "bvsub":
			r.Sub(a.Val, b.Val)
		case "bvmul":
			r.Mul(a.Val, b.Val)
		case "bvand":
			r.And(a.Val, b.Val)
		case "bvor":
			r.Or(a.Val, b.Val)
		case "bvxor":
			r.Xor(a.Val, b.Val)
		case "bvshl":
			if b.Val.Cmp(big.NewInt(int64(w))) >= 0 {
				r.SetInt64(0)
			} else {
				r.Lsh(a.Val, uint(b.Val.Int64()))
			}
		case "bvlshr":
			if b.Val.Cmp(big.NewInt(int64(w))) >= 0 {
				r.SetInt64(0)
			} else {
				r.Rsh(a.Val, uint(b.Val.Int64()))
			}
		default:
			ok = false
		}
		if ok {
			r.Mod(r, m)
			return BVC(r, w)
		}
	}
	return Op(op, a.Sort, a, b)
}
func bvCmp(op string, a, b *Term) *Term {
	if a.Sort != b.Sort {
		panic(fmt.Sprintf("bv cmp %s sort mismatch %s vs %s (%s, %s)", op, a.Sort, b.Sort, a, b))
	}
	if a.Op == "bvc" && b.Op == "bvc" && (op == "bvult" || op == "bvule" || op == "bvugt" || op == "bvuge") {
		c := a.Val.Cmp(b.Val)
		switch op {
		case "bvult":
			return BoolC(c < 0)
		case "bvule":
			return BoolC(c <= 0)
		case "bvugt":
			return BoolC(c > 0)
		case "bvuge":
			return BoolC(c >= 0)
		}
	}
	return Op(op, SBool, a, b)
}
func bvExtract(hi, lo int, a *Term) *Term {
	if a.Op == "bvc" {
		r := new(big.Int).Rsh(a.Val, uint(lo))
		return BVC(r, hi-lo+1)
	}
	return &Term{Op: fmt.Sprintf("(_ extract %d %d)", hi, lo), Args: []*Term{a}, Sort: SBV(hi - lo + 1)}
}
func bvZext(extra int, a *Term) *Term {
	if extra == 0 {
		return a
	}
	w := a.Sort.BVWidth()
	if a.Op == "bvc" {
		return BVC(a.Val, w+extra)
	}
	return &Term{Op: fmt.Sprintf("(_ zero_extend %d)", extra), Args: []*Term{a}, Sort: SBV(w + extra)}
}
func bvSext(extra int, a *Term) *Term {
	if extra == 0 {
		return a
	}
	w := a.Sort.BVWidth()
	if a.Op == "bvc" {
		v := new(big.Int).Set(a.Val)
		if v.Bit(w-1) == 1 {
			v.Sub(v, new(big.Int).Lsh(big.NewInt(1), uint(w)))
		}
		return BVC(v, w+extra)
	}
	return &Term{Op: fmt.Sprintf("(_ sign_extend %d)", extra), Args: []*Term{a}, Sort: SBV(w + extra)}
}
func bvConcat(a, b *Term) *Term {
	return Op("concat", SBV(a.Sort.BVWidth()+b.Sort.BVWidth()), a, b)
}

// ---- printing ----
func (t *Term) String() string {
	var sb strings.Builder
	t.write(&sb)
	return sb.String()
}

func smtName(n string) string {
	ok := true
	for _, c := range n {
		if !(c >= 'a' && c <= 'z' || c >= 'A' && c <= 'Z' || c >= '0' && c <= '9' || c == '_' || c == '.' || c == '!' || c == '$' || c == '@' || c == '#') {
			ok = false
			break
		}
	}
	if ok && n != "" && !(n[0] >= '0' && n[0] <= '9') {
		return n
	}
	return "|" + strings.ReplaceAll(n, "|", "_") + "|"
}

func (t *Term) write(sb *strings.Builder) {
	switch t.Op {
	case "var":
		sb.WriteString(smtName(t.Name))
	case "int":
		if t.Val.Sign() < 0 {
			sb.WriteString("(- ")
			sb.WriteString(new(big.Int).Neg(t.Val).String())
			sb.WriteString(")")
		} else {
			sb.WriteString(t.Val.String())
		}
	case "bvc":
		fmt.Fprintf(sb, "(_ bv%s %d)", t.Val.String(), t.Sort.BVWidth())
	case "true", "false":
		sb.WriteString(t.Op)
	case "app":
		if len(t.Args) == 0 {
			sb.WriteString(smtName(t.Name))
			return
		}
		sb.WriteString("(")
		sb.WriteString(smtName(t.Name))
		for _, a := range t.Args {
			sb.WriteString(" ")
			a.write(sb)
		}
		sb.WriteString(")")
	case "tyinv":
		t.Args[0].write(sb)
	case "forall", "exists":
		sb.WriteString("(" + t.Op + " (")
		for i, v := range t.Bound {
			if i > 0 {
				sb.WriteString(" ")
			}
			fmt.Fprintf(sb, "(%s %s)", smtName(v.Name), v.Sort)
		}
		sb.WriteString(") ")
		if len(t.Pats) > 0 {
			sb.WriteString("(! ")
		}
		t.Args[0].write(sb)
		for _, p := range t.Pats {
			sb.WriteString(" :pattern (")
			for i, x := range p {
				if i > 0 {
					sb.WriteString(" ")
				}
				x.write(sb)
			}
			sb.WriteString(")")
		}
		if len(t.Pats) > 0 {
			sb.WriteString(")")
		}
		sb.WriteString(")")
	default:
		sb.WriteString("(")
		sb.WriteString(t.Op)
		for _, a := range t.Args {
			sb.WriteString(" ")
			a.write(sb)
		}
		sb.WriteString(")")
	}
}

// collectSyms gathers free variables and uninterpreted function symbols.
type symInfo struct {
	name string
	args []Sort
	res  Sort
}

func collectSyms(t *Term, bound map[string]bool, out map[string]symInfo, sorts map[Sort]bool) {
	noteSort(t.Sort, sorts)
	switch t.Op {
	case "var":
		if !bound[t.Name] {
			out[t.Name] = symInfo{name: t.Name, res: t.Sort}
		}
	case "app":
		var as []Sort
		for _, a := range t.Args {
			as = append(as, a.Sort)
		}
		if prev, ok := out[t.Name]; ok {
			if len(prev.args) != len(as) || prev.res != t.Sort {
				panic("symbol " + t.Name + " used at two signatures")
			}
		}
		out[t.Name] = symInfo{name: t.Name, args: as, res: t.Sort}
	case "forall", "exists":
		nb := map[string]bool{}
		for k := range bound {
			nb[k] = true
		}
		for _, v := range t.Bound {
			nb[v.Name] = true
			noteSort(v.Sort, sorts)
		}
		collectSyms(t.Args[0], nb, out, sorts)
		for _, p := range t.Pats {
			for _, x := range p {
				collectSyms(x, nb, out, sorts)
			}
		}
		return
	}
	for _, a := range t.Args {
		collectSyms(a, bound, out, sorts)
	}
}

func noteSort(s Sort, sorts map[Sort]bool) {
	if strings.Contains(string(s), "Bytes") {
		sorts[SBytes] = true
	}
}

func sortedSyms(m map[string]symInfo) []symInfo {
	var out []symInfo
	for _, v := range m {
		out = append(out, v)
	}
	sort.Slice(out, func(i, j int) bool { return out[i].name < out[j].name })
	return out
}

// subst replaces variables by name.
func subst(t *Term, m map[string]*Term) *Term {
	switch t.Op {
	case "var":
		if r, ok := m[t.Name]; ok {
			return r
		}
		return t
	case "int", "bvc", "true", "false":
		return t
	case "forall", "exists":
		m2 := m
		for _, v := range t.Bound {
			if _, ok := m[v.Name]; ok {
				m2 = map[string]*Term{}
				for k, x := range m {
					m2[k] = x
				}
				for _, v := range t.Bound {
					delete(m2, v.Name)
				}
				break
			}
		}
		nt := *t
		nt.Args = []*Term{subst(t.Args[0], m2)}
		if len(t.Pats) > 0 {
			nt.Pats = nil
			for _, p := range t.Pats {
				var np []*Term
				for _, x := range p {
					np = append(np, subst(x, m2))
				}
				nt.Pats = append(nt.Pats, np)
			}
		}
		return &nt
	}
	changed := false
	na := make([]*Term, len(t.Args))
	for i, a := range t.Args {
		na[i] = subst(a, m)
		if na[i] != a {
			changed = true
		}
	}
	if !changed {
		return t
	}
	nt := *t
	nt.Args = na
	return &nt
}

func termSize(t *Term) int {
	n := 1
	for _, a := range t.Args {
		n += termSize(a)
	}
	return n
}

// TyInv marks a conjunction of type invariants of values read under a quantifier (ranges of machine integers,
// non-negative lengths). They hold in every state, so the marked term is equivalent to true; it is kept where it
// helps the solver: in the antecedent of a goal, and as a conjunct of the matrix of a universally quantified
// hypothesis (liftTyinv).
func TyInv(f *Term) *Term {
	if f.IsTrue() {
		return f
	}
	return &Term{Op: "tyinv", Args: []*Term{f}, Sort: SBool}
}

func stripTyinv(t *Term) *Term {
	if t == nil {
		return t
	}
	if t.Op == "tyinv" {
		return stripTyinv(t.Args[0])
	}
	if !hasTyinv(t) {
		return t
	}
	n := *t
	n.Args = make([]*Term, len(t.Args))
	for i, a := range t.Args {
		n.Args[i] = stripTyinv(a)
	}
	return &n
}

func hasTyinv(t *Term) bool {
	if t.Op == "tyinv" {
		return true
	}
	for _, a := range t.Args {
		if hasTyinv(a) {
			return true
		}
	}
	return false
}

// liftTyinv rewrites a formula that is asserted (positive polarity).
func liftTyinv(t *Term, pos bool) *Term {
	if !hasTyinv(t) {
		return t
	}
	switch t.Op {
	case "tyinv":
		return stripTyinv(t.Args[0])
	case "and", "or":
		n := *t
		n.Args = make([]*Term, len(t.Args))
		for i, a := range t.Args {
			n.Args[i] = liftTyinv(a, pos)
		}
		return &n
	case "not":
		return Not(liftTyinv(t.Args[0], !pos))
	case "=>":
		if len(t.Args) == 2 {
			return Implies(liftTyinv(t.Args[0], !pos), liftTyinv(t.Args[1], pos))
		}
	case "forall":
		if pos {
			body := t.Args[0]
			if body.Op == "=>" && len(body.Args) == 2 {
				var ty, rest []*Term
				ante := body.Args[0]
				cs := []*Term{ante}
				if ante.Op == "and" {
					cs = ante.Args
				}
				for _, c := range cs {
					if c.Op == "tyinv" {
						ty = append(ty, stripTyinv(c.Args[0]))
					} else {
						rest = append(rest, liftTyinv(c, false))
					}
				}
				n := *t
				n.Args = []*Term{And(append(ty, Implies(And(rest...), liftTyinv(body.Args[1], true)))...)}
				return &n
			}
			n := *t
			n.Args = []*Term{liftTyinv(body, true)}
			return &n
		}
	case "exists":
		if pos {
			n := *t
			n.Args = []*Term{liftTyinv(t.Args[0], true)}
			return &n
		}
	}
	return stripTyinv(t)
}
