package main

// Calls: builtins, conversions, contracted callees, inlining, library models, havoc.

import (
	"fmt"
	"go/ast"
	"go/token"
	"go/types"
	"math/big"
	"strings"
)

func (e *Env) evalCall(call *ast.CallExpr, st *State) Value {
	var args []Value
	// conversions and builtins evaluate their own arguments
	if tv, ok := e.Info.Types[call.Fun]; ok && tv.IsType() {
		return e.evalConversion(call, st)
	}
	if id, ok := stripParens(call.Fun).(*ast.Ident); ok {
		if _, isB := e.Info.Uses[id].(*types.Builtin); isB {
			return e.evalBuiltin(id.Name, call, st)
		}
	}
	for _, a := range call.Args {
		args = append(args, e.eval(a, st))
	}
	return e.evalCallWith(call, st, args)
}

func (e *Env) evalConversion(call *ast.CallExpr, st *State) Value {
	c := e.C
	to := e.Info.TypeOf(call.Fun)
	from := e.Info.TypeOf(call.Args[0])
	v := e.eval(call.Args[0], st)
	v = e.adapt(v, to)
	if c.AbsKeys {
		switch k := v.(type) {
		case *IKeyV:
			if isInternalKeyType(to) {
				return k
			}
			if isByteSlice(to) {
				panic(outOfReach("internal key used as raw bytes at " + c.W.relPos(call.Pos())))
			}
		case *KeyV:
			if isInternalKeyType(to) {
				// raw bytes reinterpreted as an internal key: its parts are functions of the byte string
				return c.asIKey(st, k)
			}
			return k
		}
	}
	if isIntType(to) && isIntType(from) {
		if t, ok := v.(*Term); ok {
			return c.convert(t, from, to)
		}
	}
	// []byte(string) / string([]byte): same content, fresh storage (treated as a view: the subset has no
	// writes through such copies that are observed through the original)
	if sv, ok := v.(*SliceV); ok {
		if isString(to) && !sv.Str {
			return &SliceV{Base: sv.Base, Off: sv.Off, Len: sv.Len, Cap: sv.Len, Elem: sv.Elem, Str: true}
		}
		if _, isSl := to.Underlying().(*types.Slice); isSl && sv.Str {
			base := c.newRef(st, "strcopy")
			n := &SliceV{Base: base, Off: c.idxC(0), Len: sv.Len, Cap: sv.Len, Elem: sv.Elem}
			c.copyInto(st, n, sv, sv.Len)
			return n
		}
		return sv
	}
	if _, toI := to.Underlying().(*types.Interface); toI {
		return e.convertAssign(v, from, to, st)
	}
	if isIntType(to) != isIntType(from) {
		// float <-> int etc.
		nv, facts := c.freshValue(to, "conv")
		for _, f := range facts {
			st.assume(f)
		}
		return nv
	}
	return v
}

func (e *Env) evalBuiltin(name string, call *ast.CallExpr, st *State) Value {
	c := e.C
	if v, ok := e.absBuiltin(name, call, st); ok {
		return v
	}
	switch name {
	case "len", "cap":
		at := e.Info.TypeOf(call.Args[0])
		v := e.eval(call.Args[0], st)
		if sl, ok := e.asSlice(v, at, st); ok {
			r := sl.Len
			if name == "cap" {
				r = sl.Cap
			}
			return r
		}
		n := c.freshVar("len", c.idxSort())
		st.assume(c.ile(c.idxC(0), n))
		return n
	case "panic":
		e.eval(call.Args[0], st)
		if c.Safety && !c.panicsAllowed() {
			n := c.siteOrdinal("panic", call.Pos())
			c.oblige(st, "panic", fmt.Sprintf("panic#%d", n), call.Pos(), TFalse, "explicit panic is unreachable")
		}
		c.protoPanic(e, st, call.Pos())
		st.dead = true
		return IntC(0)
	case "copy":
		dt := e.Info.TypeOf(call.Args[0])
		d := e.eval(call.Args[0], st)
		s := e.eval(call.Args[1], st)
		ds, ok1 := e.asSlice(d, dt, st)
		ss, ok2 := e.asSlice(s, e.Info.TypeOf(call.Args[1]), st)
		if !ok1 || !ok2 {
			c.havocAll(st, "copy")
			return c.freshVar("n", c.idxSort())
		}
		n := Ite(c.ilt(ds.Len, ss.Len), ds.Len, ss.Len)
		n = c.define("copyn", n)
		c.copyInto(st, ds, ss, n)
		return n
	case "append":
		return e.evalAppend(call, st)
	case "make":
		t := e.Info.TypeOf(call)
		switch u := t.Underlying().(type) {
		case *types.Slice:
			var n, cp *Term
			if len(call.Args) > 1 {
				v, _ := e.eval(call.Args[1], st).(*Term)
				if v != nil {
					n = c.toIdx(v, e.Info.TypeOf(call.Args[1]))
				}
			}
			if len(call.Args) > 2 {
				v, _ := e.eval(call.Args[2], st).(*Term)
				if v != nil {
					cp = c.toIdx(v, e.Info.TypeOf(call.Args[2]))
				}
			}
			if n == nil {
				n = c.freshVar("mklen", c.idxSort())
			}
			if cp == nil {
				cp = n
			}
			c.safety(st, "bounds", call.Pos(), And(c.ile(c.idxC(0), n), c.ile(n, cp)), "make: 0 <= len <= cap")
			base := c.newRef(st, "make")
			sl := &SliceV{Base: base, Off: c.idxC(0), Len: n, Cap: cp, Elem: u.Elem()}
			c.zeroFill(st, sl)
			return sl
		default:
			for _, a := range call.Args[1:] {
				e.eval(a, st)
			}
			return c.newRef(st, "make")
		}
	case "new":
		t := e.Info.TypeOf(call.Args[0])
		ref := c.newRef(st, "new")
		if s, ok := t.Underlying().(*types.Struct); ok {
			zv := c.zeroValue(t).(*StructV)
			for k := 0; k < s.NumFields(); k++ {
				f := s.Field(k)
				if _, isArr := f.Type().Underlying().(*types.Array); isArr {
					continue
				}
				c.storeField(st, ref, t, f, zv.F[f.Name()])
			}
		} else {
			c.storeCell(st, ref, t, c.zeroValue(t))
		}
		return ref
	case "delete", "close", "print", "println", "clear":
		for _, a := range call.Args {
			e.eval(a, st)
		}
		if name == "close" {
			c.protoClose(e, st, call.Args[0], call.Pos())
		}
		return IntC(0)
	case "min", "max":
		t := e.Info.TypeOf(call)
		v, _ := e.eval(call.Args[0], st).(*Term)
		for _, a := range call.Args[1:] {
			w, _ := e.eval(a, st).(*Term)
			if v == nil || w == nil {
				return e.opaque(call, st)
			}
			op := token.LSS
			if name == "max" {
				op = token.GTR
			}
			v = Ite(c.compare(op, v, w, t), v, w)
		}
		return v
	case "recover":
		// panics are not unwound in this model: recover() yields an unknown value
		c.note("recover() modelled as an unknown value; panic unwinding is not modelled")
		return c.freshVar("recovered", SInt)
	}
	return e.opaque(call, st)
}

func (c *FCtx) panicsAllowed() bool {
	return c.Contract != nil && c.Contract.Flags["panics"] != ""
}

// zeroFill states that a freshly made slice holds zero values.
func (c *FCtx) zeroFill(st *State, sl *SliceV) {
	for _, lf := range c.memLeaves(sl.Elem) {
		memS := SArr(SInt, SArr(c.idxSort(), lf.S))
		mem := c.heapGet(st, lf.Path, memS)
		var z *Term
		switch {
		case lf.S == SBool:
			z = TFalse
		case lf.S.IsBV():
			z = BVC(bigZero, lf.S.BVWidth())
		default:
			z = IntC(0)
		}
		na := c.freshVar("zf", SArr(c.idxSort(), lf.S))
		i := Var(c.freshName("i"), c.idxSort())
		st.assume(&Term{Op: "forall", Bound: []*Term{i}, Sort: SBool, Args: []*Term{Eq(Select(na, i), z)}, Pats: [][]*Term{{Select(na, i)}}})
		c.heapSet(st, lf.Path, Store(mem, sl.Base, na))
	}
}

// evalAppend models append(s, elems...) / append(s, t...): one formula covering in-place and reallocating growth.
func (e *Env) evalAppend(call *ast.CallExpr, st *State) Value {
	c := e.C
	st0 := e.Info.TypeOf(call.Args[0])
	sv := e.eval(call.Args[0], st)
	s, ok := e.asSlice(sv, st0, st)
	if !ok {
		for _, a := range call.Args[1:] {
			e.eval(a, st)
		}
		c.havocAll(st, "append")
		return e.opaque(call, st)
	}
	res := &SliceV{Elem: s.Elem}
	var addN *Term
	var src *SliceV
	var elems []Value
	if call.Ellipsis.IsValid() {
		av := e.eval(call.Args[1], st)
		a, ok := e.asSlice(av, e.Info.TypeOf(call.Args[1]), st)
		if !ok {
			c.havocAll(st, "append")
			return e.opaque(call, st)
		}
		src = a
		addN = a.Len
	} else {
		for _, a := range call.Args[1:] {
			elems = append(elems, e.convertAssign(e.eval(a, st), e.Info.TypeOf(a), s.Elem, st))
		}
		addN = c.idxC(int64(len(elems)))
	}
	if len(call.Args) == 1 {
		return s
	}
	newLen := c.define("applen", c.iadd(s.Len, addN))
	inPlace := c.define("appinpl", c.ile(newLen, s.Cap))
	fresh := c.newRef(st, "app")
	res.Base = c.define("appbase", Ite(inPlace, s.Base, fresh))
	res.Off = c.define("appoff", Ite(inPlace, s.Off, c.idxC(0)))
	res.Len = newLen
	capv := c.freshVar("appcap", c.idxSort())
	st.assume(c.ile(newLen, capv))
	st.assume(c.ile(capv, c.idxC(maxLen*2)))
	res.Cap = c.define("appcap", Ite(inPlace, s.Cap, capv))
	// appending nothing to nil keeps nil
	for _, lf := range c.memLeaves(s.Elem) {
		memS := SArr(SInt, SArr(c.idxSort(), lf.S))
		mem := c.heapGet(st, lf.Path, memS)
		oldS := Select(mem, s.Base)
		oldR := Select(mem, res.Base)
		na := c.freshVar("app", SArr(c.idxSort(), lf.S))
		// prefix preserved
		i := Var(c.freshName("i"), c.idxSort())
		c.assumeDef(st, &Term{Op: "forall", Bound: []*Term{i}, Sort: SBool, Args: []*Term{
			Implies(And(c.ile(res.Off, i), c.ilt(i, c.iadd(res.Off, s.Len))),
				Eq(Select(na, i), Select(oldS, c.iadd(s.Off, c.isub(i, res.Off)))))},
			Pats: [][]*Term{{Select(na, i)}}})
		// appended part
		if src != nil {
			oldSrc := Select(mem, src.Base)
			j := Var(c.freshName("i"), c.idxSort())
			lo := c.iadd(res.Off, s.Len)
			c.assumeDef(st, &Term{Op: "forall", Bound: []*Term{j}, Sort: SBool, Args: []*Term{
				Implies(And(c.ile(lo, j), c.ilt(j, c.iadd(lo, addN))),
					Eq(Select(na, j), Select(oldSrc, c.iadd(src.Off, c.isub(j, lo)))))},
				Pats: [][]*Term{{Select(na, j)}}})
		} else {
			for k, ev := range elems {
				pos := c.iadd(c.iadd(res.Off, s.Len), c.idxC(int64(k)))
				kk := k
				c.walkLeaves(s.Elem, ev, c.memKey(s.Elem), func(path string, lt types.Type, leaf *Term) {
					if path == lf.Path {
						_ = kk
						c.assumeDef(st, Eq(Select(na, pos), leaf))
					}
				})
			}
		}
		// frame: in place, everything outside the appended range is unchanged
		k := Var(c.freshName("i"), c.idxSort())
		lo := c.iadd(res.Off, s.Len)
		c.assumeDef(st, &Term{Op: "forall", Bound: []*Term{k}, Sort: SBool, Args: []*Term{
			Implies(And(inPlace, Not(And(c.ile(lo, k), c.ilt(k, c.iadd(lo, addN))))),
				Eq(Select(na, k), Select(oldR, k)))},
			Pats: [][]*Term{{Select(na, k)}}})
		c.heapSet(st, lf.Path, Store(mem, res.Base, na))
		if lf.Path == c.memKey(types.Typ[types.Uint8]) {
			// the abstract value of the old prefix is unchanged (instance of byte-sequence extensionality
			// whose premise is the prefix axiom above)
			st.assume(Eq(App("bytes$", SBytes, na, res.Off, s.Len), App("bytes$", SBytes, oldS, s.Off, s.Len)))
		}
	}
	return res
}

// ---- resolving callees ----

type callee struct {
	fn      *types.Func
	recv    ast.Expr // receiver expression (methods)
	iface   bool
	lit     *ast.FuncLit
	funcVal Value
	full    string
	staticRecv types.Type
}

func (e *Env) resolveCallee(call *ast.CallExpr, st *State) callee {
	fun := stripParens(call.Fun)
	switch f := fun.(type) {
	case *ast.Ident:
		switch o := e.Info.Uses[f].(type) {
		case *types.Func:
			return callee{fn: o, full: o.FullName()}
		case *types.Var:
			v, _ := e.getVar(st, o)
			if fv, ok := v.(*FuncV); ok {
				return callee{lit: fv.Lit.(*ast.FuncLit), funcVal: fv}
			}
			return callee{funcVal: v}
		}
	case *ast.SelectorExpr:
		if sel := e.Info.Selections[f]; sel != nil {
			if sel.Kind() == types.MethodVal {
				fn := sel.Obj().(*types.Func)
				_, isIface := sel.Recv().Underlying().(*types.Interface)
				return callee{fn: fn, recv: f.X, iface: isIface, full: fn.FullName(), staticRecv: sel.Recv()}
			}
			// func-typed field
			v := e.eval(f, st)
			if fv, ok := v.(*FuncV); ok {
				return callee{lit: fv.Lit.(*ast.FuncLit), funcVal: fv}
			}
			return callee{funcVal: v}
		}
		if o, ok := e.Info.Uses[f.Sel].(*types.Func); ok {
			return callee{fn: o, full: o.FullName()}
		}
	case *ast.FuncLit:
		return callee{lit: f}
	}
	return callee{}
}

func (e *Env) evalCallWith(call *ast.CallExpr, st *State, args []Value) Value {
	if (e.Top || e.litOfTop()) && !st.dead {
		if ord, ok := e.C.callOrd[call.Lparen]; ok && e.C.Contract != nil && len(e.C.Contract.Ats) > 0 {
			saved := e.C.specAt
			e.C.specAt = call.Pos()
			// the arguments of the call are visible as arg0, arg1, ...
			extra := map[string]TV{}
			var psig *types.Signature
			if ft := e.Info.TypeOf(call.Fun); ft != nil {
				psig, _ = ft.Underlying().(*types.Signature)
			}
			for i, a := range args {
				if i < len(call.Args) {
					if t := e.Info.TypeOf(call.Args[i]); t != nil && a != nil {
						// an untyped nil (or constant) argument takes the parameter's type
						if psig != nil && i < psig.Params().Len() && !(psig.Variadic() && i >= psig.Params().Len()-1) {
							pt := psig.Params().At(i).Type()
							if b, isB := t.(*types.Basic); isB && b.Info()&types.IsUntyped != 0 {
								a = e.convertAssign(a, t, pt, st)
								t = pt
							}
						}
						extra[fmt.Sprintf("arg%d", i)] = TV{a, t}
					}
				}
			}
			// ... and the receiver of a method call as recv
			if sel, ok := stripParens(call.Fun).(*ast.SelectorExpr); ok {
				if s := e.Info.Selections[sel]; s != nil && s.Kind() == types.MethodVal {
					if rt := e.Info.TypeOf(sel.X); rt != nil {
						tmp := st.clone()
						if rv := e.eval(sel.X, tmp); rv != nil {
							extra["recv"] = TV{rv, rt}
						}
					}
				}
			}
			e.C.runAts(e, st, "before call "+ord, extra)
			e.C.specAt = saved
		}
	}
	v := e.evalCallWith0(call, st, args)
	// call counters ("count (*DB).writeJournal"): advanced after the callee's own effects
	if !st.dead {
		if cl := e.resolveCallee(call, st); cl.fn != nil {
			name := ""
			if fi := e.C.W.ByObj[cl.fn]; fi != nil && e.C.W.countedCall(fi) {
				name = fi.Short
			} else if fi == nil && e.C.W.countedExt(extKey(cl.fn)) {
				name = extKey(cl.fn)
			}
			if name != "" {
				// slot 0: number of calls; slot 1: logical time of the last call; slot 2: logical time of the last
				// call that returned a nil error (or has no error result)
				key := "G$calls." + name
				arr := e.C.heapGet(st, key, SArr(SInt, SInt))
				clk := e.C.heapGet(st, clockKey, SArr(SInt, SInt))
				now := IAdd(Select(clk, IntC(0)), IntC(1))
				// logical times are never in the future
				st.assume(And(IGe(Select(arr, IntC(2)), IntC(0)), ILe(Select(arr, IntC(2)), Select(arr, IntC(1))), ILe(Select(arr, IntC(1)), Select(clk, IntC(0)))))
				e.C.heapSet(st, clockKey, Store(clk, IntC(0), now))
				arr = Store(arr, IntC(0), IAdd(Select(arr, IntC(0)), IntC(1)))
				arr = Store(arr, IntC(1), now)
				ok := TTrue
				if ev, isT := lastErrResult(v, cl.fn).(*Term); isT && ev != nil && ev.Sort == SInt {
					ok = Eq(ev, IntC(0))
				}
				arr = Store(arr, IntC(2), Ite(ok, now, Select(arr, IntC(2))))
				e.C.heapSet(st, key, arr)
			}
		}
	}
	if (e.Top || e.litOfTop()) && !st.dead {
		if ord, ok := e.C.callOrd[call.Lparen]; ok && e.C.Contract != nil && len(e.C.Contract.Ats) > 0 {
			saved := e.C.specAt
			e.C.specAt = call.End()
			// the results of the call are visible as result / ret0, ret1, ...
			extra := map[string]TV{}
			if tt, ok := e.Info.TypeOf(call).(*types.Tuple); ok {
				if tv, isT := v.(*TupleV); isT {
					for i := 0; i < tt.Len() && i < len(tv.Vs); i++ {
						extra[fmt.Sprintf("ret%d", i)] = TV{tv.Vs[i], tt.At(i).Type()}
					}
					if len(tv.Vs) > 0 {
						extra["result"] = TV{tv.Vs[0], tt.At(0).Type()}
					}
				}
			} else if t := e.Info.TypeOf(call); t != nil && v != nil {
				extra["result"] = TV{v, t}
				extra["ret0"] = TV{v, t}
			}
			e.C.runAts(e, st, "call "+ord, extra)
			e.C.specAt = saved
		}
	}
	return v
}

func (e *Env) evalCallWith0(call *ast.CallExpr, st *State, args []Value) Value {
	c := e.C
	if st.dead {
		return e.deadValue(call)
	}
	cl := e.resolveCallee(call, st)
	// variadic packing is not modelled: extra args are evaluated only
	if cl.lit != nil {
		return e.inlineLit(cl.lit, call, st, args)
	}
	if cl.fn == nil {
		// dynamic call through a function value
		c.protoDynamicCall(e, st, call)
		c.havocForCall(e, st, nil, call)
		return e.opaque(call, st)
	}
	var recvVal Value
	if fc := e.fixed[call]; fc != nil && fc.hasRecv {
		recvVal = fc.recv
	} else if cl.recv != nil && !strings.HasPrefix(cl.full, "(*sync.") {
		recvVal = e.eval(cl.recv, st)
		recvVal = e.promoteRecv(call, recvVal, st)
	}
	// abstract keys
	if v, handled := e.absCall(call, st, cl, recvVal, args); handled {
		return v
	}
	if cl.full == "sort.Search" {
		if v, handled := e.sortSearchModel(call, st, args); handled {
			return v
		}
	}
	// protocol layer (locks etc.)
	if v, handled := c.protoCall(e, st, call, cl, recvVal, args); handled {
		return v
	}
	// library models
	if v, handled := e.modelCall(call, st, cl, recvVal, args); handled {
		return v
	}
	if c.LockSweep {
		if eff := c.W.effectsOfCall(e.Info, call); eff != nil && eff.Unwinds {
			c.protoUnwind(e, st, call, cl)
		}
	}
	// contracts
	if ct := c.contractFor(cl); ct != nil {
		// "inline": the contract is checked on the function itself; callers see the body
		if fi := c.W.ByObj[cl.fn]; ct.Flags["inline"] != "" && fi != nil && !cl.iface && c.canInline(fi) {
			return e.inlineFunc(fi, call, st, cl, recvVal, args)
		}
		return e.applyContract(call, st, cl, ct, recvVal, args)
	}
	fi := c.W.ByObj[cl.fn]
	if cl.iface || fi == nil {
		c.havocForCall(e, st, cl.fn, call)
		return e.resultFresh(call, st, cl)
	}
	// inline small callees
	if c.canInline(fi) {
		return e.inlineFunc(fi, call, st, cl, recvVal, args)
	}
	c.havocForCall(e, st, cl.fn, call)
	return e.resultFresh(call, st, cl)
}

// promoteRecv walks the embedded fields of a promoted method call (x.M() where M belongs to an embedded field).
func (e *Env) promoteRecv(call *ast.CallExpr, recvVal Value, st *State) Value {
	c := e.C
	sx, ok := stripParens(call.Fun).(*ast.SelectorExpr)
	if !ok {
		return recvVal
	}
	sel := e.Info.Selections[sx]
	if sel == nil || sel.Kind() != types.MethodVal || len(sel.Index()) < 2 {
		return recvVal
	}
	curT := sel.Recv()
	cur := recvVal
	path := sel.Index()
	for _, fi := range path[:len(path)-1] {
		s := structOf(curT)
		if s == nil {
			return recvVal
		}
		f := s.Field(fi)
		switch v := cur.(type) {
		case *Term:
			owner := curT
			if p, ok := owner.Underlying().(*types.Pointer); ok {
				owner = p.Elem()
			}
			if _, isStruct := f.Type().Underlying().(*types.Struct); isStruct {
				cur = c.embRef(owner, f, v)
				curT = types.NewPointer(f.Type())
				continue
			}
			cur = c.loadField(st, v, owner, f)
		case *StructV:
			cur = v.F[f.Name()]
		default:
			return recvVal
		}
		curT = f.Type()
	}
	return cur
}

func (e *Env) resultFresh(call *ast.CallExpr, st *State, cl callee) Value {
	return e.opaque(call, st)
}

func (c *FCtx) contractFor(cl callee) *Contract {
	ct := c.contractFor0(cl)
	if c.AbsKeys && ct != nil && ct.Kind == "func" && ct.Flags["abstract"] == "" && ct.Flags["trusted"] == "" {
		// a byte-level contract cannot be read where keys are abstracted: the callee is summarised by its effects
		return nil
	}
	if !c.LockSweep && ct != nil && c.PropFilter != "" {
		ct = propView(ct, c.PropFilter)
	}
	if c.LockSweep && ct != nil {
		sc := sweepContract(ct)
		if len(sc.Requires) == 0 && len(sc.Ensures) == 0 && len(sc.Extra) == 0 {
			// nothing lock-related: treat as un-contracted (inlined or havoc)
			if fi := c.W.ByObj[cl.fn]; fi != nil {
				return nil
			}
		}
		return sc
	}
	return ct
}

func (c *FCtx) contractFor0(cl callee) *Contract {
	if cl.fn == nil {
		return nil
	}
	if cl.iface {
		if cl.staticRecv != nil {
			if n := namedOf(cl.staticRecv); n != nil && n.Obj().Pkg() != nil {
				if ct := c.W.Specs.ByKey["iface:"+n.Obj().Pkg().Name()+"."+n.Obj().Name()+"."+cl.fn.Name()]; ct != nil {
					return ct
				}
			}
		}
		sig := cl.fn.Type().(*types.Signature)
		if sig.Recv() != nil {
			if n := namedOf(sig.Recv().Type()); n != nil && n.Obj().Pkg() != nil {
				return c.W.Specs.ByKey["iface:"+n.Obj().Pkg().Name()+"."+n.Obj().Name()+"."+cl.fn.Name()]
			}
		}
		return nil
	}
	if fi := c.W.ByObj[cl.fn]; fi != nil {
		if ct := c.W.Specs.ByKey[fi.Key]; ct != nil {
			return ct
		}
		return nil
	}
	return c.W.Specs.ByKey["iface:"+extKey(cl.fn)]
}

func extKey(fn *types.Func) string {
	// "io.ReadFull", "(*bufio.Writer).Flush" -> "bufio.Writer.Flush"
	s := fn.FullName()
	s = strings.NewReplacer("(", "", ")", "", "*", "").Replace(s)
	if k := strings.LastIndex(s, "/"); k >= 0 {
		s = s[k+1:]
	}
	return s
}

func (c *FCtx) canInline(fi *FuncInfo) bool {
	if c.inlineDepth >= 8 {
		return false
	}
	if c.recFuncs[fi.Key] {
		return false
	}
	if ct := c.W.Specs.ByKey[fi.Key]; ct != nil {
		// a contract that takes no part in this property's view does not stand in for the body
		if c.LockSweep || c.PropFilter == "" {
			return false
		}
		if v := propView(ct, c.PropFilter); v != nil && v.Flags["inline"] == "" {
			// ("inline": the contract is checked on the function itself, callers still see the body)
			return false
		}
	}
	if c.LockSweep {
		// in the lock sweep only callees that touch locks need to be looked into; the others are summarised by
		// their write sets
		if eff := c.W.effectsOf(fi.Obj); eff == nil || len(eff.Locks) == 0 {
			n := 0
			ast.Inspect(fi.Decl.Body, func(x ast.Node) bool {
				if _, ok := x.(ast.Stmt); ok {
					n++
				}
				return true
			})
			if n > 3 {
				return false
			}
		}
	}
	hasLoop := false
	n := 0
	ast.Inspect(fi.Decl.Body, func(x ast.Node) bool {
		switch x.(type) {
		case *ast.ForStmt, *ast.RangeStmt, *ast.GoStmt, *ast.SelectStmt, *ast.LabeledStmt:
			hasLoop = true
		case *ast.FuncLit:
			return false
		case ast.Stmt:
			n++
		}
		return true
	})
	if hasLoop || n > 40 {
		return false
	}
	// uses recover?
	return true
}

func (e *Env) inlineFunc(fi *FuncInfo, call *ast.CallExpr, st *State, cl callee, recvVal Value, args []Value) Value {
	c := e.C
	sig := fi.Obj.Type().(*types.Signature)
	ne := c.newEnv(fi.Pkg, sig, fi.Decl.Body, false, fi.Key)
	ne.Parent = nil
	ne.FI = fi
	// bind receiver and params
	if fi.Decl.Recv != nil && len(fi.Decl.Recv.List) > 0 && len(fi.Decl.Recv.List[0].Names) > 0 {
		rid := fi.Decl.Recv.List[0].Names[0]
		if obj := fi.Pkg.TypesInfo.Defs[rid]; obj != nil {
			rv := e.adjustReceiver(recvVal, cl, sig, st)
			ne.setVar(st, obj, rv)
		}
	}
	e.bindParams(ne, fi.Decl.Type, sig, call, st, args)
	return e.runInlined(ne, fi.Decl.Body, st, call, fi.Key)
}

// adjustReceiver converts between pointer and value receivers.
func (e *Env) adjustReceiver(recvVal Value, cl callee, sig *types.Signature, st *State) Value {
	c := e.C
	if cl.recv == nil || sig.Recv() == nil {
		return recvVal
	}
	have := e.Info.TypeOf(cl.recv)
	want := sig.Recv().Type()
	_, havePtr := have.Underlying().(*types.Pointer)
	_, wantPtr := want.Underlying().(*types.Pointer)
	if havePtr && !wantPtr {
		if r, ok := recvVal.(*Term); ok {
			return c.loadCell(st, r, want)
		}
	}
	if !havePtr && wantPtr {
		// addressable value: boxed local
		if id, ok := stripParens(cl.recv).(*ast.Ident); ok {
			if obj := e.Info.Uses[id]; obj != nil && e.isBoxed(obj) {
				e.getVar(st, obj)
				return st.vars[obj]
			}
		}
		if sx, ok := stripParens(cl.recv).(*ast.SelectorExpr); ok {
			if ref, owner, fld, ok := e.fieldAddr(sx, st); ok {
				if _, isStruct := fld.Type().Underlying().(*types.Struct); isStruct {
					return c.embRef(owner, fld, ref)
				}
				return App("addr$"+structKey(owner)+"."+fld.Name(), SInt, ref)
			}
		}
		r := c.freshVar("recvaddr", SInt)
		st.assume(IGt(r, IntC(0)))
		return r
	}
	return recvVal
}

func (e *Env) bindParams(ne *Env, ft *ast.FuncType, sig *types.Signature, call *ast.CallExpr, st *State, args []Value) {
	c := e.C
	k := 0
	if ft.Params == nil {
		return
	}
	for _, fld := range ft.Params.List {
		for _, nm := range fld.Names {
			obj := ne.Info.Defs[nm]
			if obj == nil {
				k++
				continue
			}
			var v Value
			if sig.Variadic() && k == sig.Params().Len()-1 && !call.Ellipsis.IsValid() {
				// pack the variadic tail
				elemT := sig.Params().At(k).Type().(*types.Slice).Elem()
				rest := args[min(k, len(args)):]
				if len(rest) == 0 {
					v = c.zeroValue(obj.Type())
				} else {
					base := c.newRef(st, "vararg")
					sl := &SliceV{Base: base, Off: c.idxC(0), Len: c.idxC(int64(len(rest))), Cap: c.idxC(int64(len(rest))), Elem: elemT}
					for i, a := range rest {
						var at types.Type
						if k+i < len(call.Args) {
							at = e.Info.TypeOf(call.Args[k+i])
						}
						c.storeElem(st, sl, c.idxC(int64(i)), e.convertAssign(a, at, elemT, st))
					}
					v = sl
				}
			} else if k < len(args) {
				var at types.Type
				if k < len(call.Args) {
					at = e.Info.TypeOf(call.Args[k])
				}
				v = e.convertAssign(args[k], at, obj.Type(), st)
			} else {
				v = c.zeroValue(obj.Type())
			}
			if nm.Name != "_" {
				ne.setVar(st, obj, v)
			}
			k++
		}
		if len(fld.Names) == 0 {
			k++
		}
	}
}

func (e *Env) runInlined(ne *Env, body *ast.BlockStmt, st *State, call *ast.CallExpr, key string) Value {
	c := e.C
	c.inlineDepth++
	c.recFuncs[key] = true
	defer func() {
		c.inlineDepth--
		delete(c.recFuncs, key)
	}()
	// named results start at zero
	for _, rv := range ne.Results {
		st.vars[rv] = c.zeroValue(rv.Type())
	}
	st.defers = append(st.defers, nil)
	outs := ne.execBlock(body.List, st)
	var rets []*State
	for _, o := range outs {
		switch o.Kind {
		case oNormal, oReturn:
			ne.runDefers(o.St)
			if !o.St.dead {
				rets = append(rets, o.St)
			}
		default:
			panic(outOfReach("stray break/continue in inlined callee " + key))
		}
	}
	if len(rets) == 0 {
		st.dead = true
		return e.deadValue(call)
	}
	for _, r := range rets {
		r.defers = r.defers[:len(r.defers)-1]
	}
	var final *State
	if len(rets) == 1 {
		final = rets[0]
	} else {
		final = c.mergeStates(rets)
		if final == nil {
			panic(outOfReach("cannot merge returns of inlined callee " + key))
		}
	}
	*st = *final
	switch len(ne.Results) {
	case 0:
		return IntC(0)
	case 1:
		return st.vars[ne.Results[0]]
	}
	tv := &TupleV{}
	for _, rv := range ne.Results {
		tv.Vs = append(tv.Vs, st.vars[rv])
	}
	return tv
}

func (e *Env) inlineLit(lit *ast.FuncLit, call *ast.CallExpr, st *State, args []Value) Value {
	c := e.C
	sig, _ := e.Info.TypeOf(lit).(*types.Signature)
	ne := c.newEnv(e.Pkg, sig, lit.Body, false, e.Name+"$lit")
	ne.Parent = e
	ne.Info = e.Info
	ne.Top = false
	e.bindParams(ne, lit.Type, sig, call, st, args)
	key := fmt.Sprintf("lit@%d", lit.Pos())
	if c.recFuncs[key] {
		c.havocAll(st, "recursive closure")
		return e.opaque(call, st)
	}
	return e.runInlined(ne, lit.Body, st, call, key)
}

// havocForCall forgets what an un-contracted, un-inlined callee may change: the write set of everything the
// call can reach in the call graph (dynamic calls resolved over the loaded packages).
func (c *FCtx) havocForCall(e *Env, st *State, fn *types.Func, call *ast.CallExpr) {
	eff := c.W.effectsOfCall(e.Info, call)
	var keys []string
	for k := range eff.Writes {
		keys = append(keys, k)
	}
	c.havocWriteSet(st, keys)
	c.havocCounters(st, eff)
	// allocation may have happened
	old := c.heapGet(st, "$alloc", SInt)
	n := c.freshVar("$alloc", SInt)
	st.heap["$alloc"] = n
	st.assume(IGe(n, old))
	// locals captured by closures passed as arguments may change
	for _, a := range call.Args {
		if lit, ok := stripParens(a).(*ast.FuncLit); ok {
			for _, obj := range e.assignedIn(lit.Body) {
				if cur, ok := e.getVar(st, obj); ok {
					if _, isF := cur.(*FuncV); isF {
						continue
					}
					nv, facts := c.freshValue(obj.Type(), "h_"+obj.Name())
					e.setVar(st, obj, nv)
					for _, f := range facts {
						st.assume(f)
					}
				}
			}
		}
	}
}

// havocCounters forgets the event and call counters a callee may advance.
func (c *FCtx) havocCounters(st *State, eff *Effects) {
	c.havocGhostWrites(st, eff)
	var calls []string
	for k := range eff.Locks {
		if isCounterKey(k) {
			prev := c.heapGet(st, k, SArr(SInt, SInt))
			st.heap[k] = c.freshVar(k, SArr(SInt, SInt))
			if strings.HasPrefix(k, "G$calls.") {
				calls = append(calls, k)
				// call counts only grow
				st.assume(IGe(Select(st.heap[k], IntC(0)), Select(prev, IntC(0))))
			}
		}
	}
	c.clockAfterHavoc(st, calls)
}

// havocGhostWrites forgets the ghost globals the "at" clauses of anything reachable may assign.
func (c *FCtx) havocGhostWrites(st *State, eff *Effects) {
	for k := range eff.Writes {
		if !strings.HasPrefix(k, "G$") {
			continue
		}
		if gt, ok := c.W.Specs.GhostVars[strings.TrimPrefix(k, "G$")]; ok {
			srt, _ := c.specSort(gt)
			st.heap[k] = c.freshVar(k, SArr(SInt, srt))
		}
	}
}

// clockAfterHavoc: the listed call counters were forgotten; logical time moved forward and the forgotten times of
// last calls are not in the future.
func (c *FCtx) clockAfterHavoc(st *State, keys []string) {
	if len(keys) == 0 {
		return
	}
	c.advanceClock(st)
	clk := Select(c.heapGet(st, clockKey, SArr(SInt, SInt)), IntC(0))
	for _, k := range keys {
		if k == clockKey {
			continue
		}
		arr := st.heap[k]
		st.assume(And(IGe(Select(arr, IntC(2)), IntC(0)), ILe(Select(arr, IntC(2)), Select(arr, IntC(1))), ILe(Select(arr, IntC(1)), clk)))
	}
}

const clockKey = "G$calls.$clock"

// advanceClock: some counted calls may have happened; logical time only moves forward.
func (c *FCtx) advanceClock(st *State) {
	old := c.heapGet(st, clockKey, SArr(SInt, SInt))
	n := c.freshVar(clockKey, SArr(SInt, SInt))
	st.heap[clockKey] = n
	st.assume(IGe(Select(n, IntC(0)), Select(old, IntC(0))))
}

// lastErrResult returns the error-typed last result of a call value, if the callee has one.
func lastErrResult(v Value, fn *types.Func) Value {
	sig, ok := fn.Type().(*types.Signature)
	if !ok || sig.Results().Len() == 0 {
		return nil
	}
	last := sig.Results().At(sig.Results().Len() - 1)
	if !types.Identical(last.Type(), types.Universe.Lookup("error").Type()) {
		return nil
	}
	if t, ok := v.(*TupleV); ok {
		if len(t.Vs) == 0 {
			return nil
		}
		return t.Vs[len(t.Vs)-1]
	}
	return v
}

// havocWriteSet forgets heap keys matching the write set (a key or any leaf below it), including keys this
// verification has not touched yet.
func (c *FCtx) havocWriteSet(st *State, keys []string) {
	if len(keys) == 0 {
		return
	}
	rec := &havocRec{name: c.freshName("hw"), prefixes: keys}
	for k := range st.heap {
		if !isGhostKey(k) && rec.covers(k) {
			delete(st.heap, k)
		}
	}
	st.hav = append(st.hav, rec)
}

// ---- contracts at call sites ----

func (e *Env) applyContract(call *ast.CallExpr, st *State, cl callee, ct *Contract, recvVal Value, args []Value) Value {
	c := e.C
	sig := cl.fn.Type().(*types.Signature)
	b := &Bindings{vals: map[string]TV{}}
	// receiver
	fi := c.W.ByObj[cl.fn]
	var specPkg = c.W.ByName[ct.PkgName]
	if fi != nil && fi.Decl.Recv != nil && len(fi.Decl.Recv.List) > 0 && len(fi.Decl.Recv.List[0].Names) > 0 {
		rv := e.adjustReceiver(recvVal, cl, sig, st)
		b.vals[fi.Decl.Recv.List[0].Names[0].Name] = TV{rv, sig.Recv().Type()}
	} else if cl.recv != nil {
		b.vals["self"] = TV{recvVal, e.Info.TypeOf(cl.recv)}
	}
	// params: names from the declaration, or from the contract's params clause
	for i := 0; i < sig.Params().Len(); i++ {
		p := sig.Params().At(i)
		name := p.Name()
		if i < len(ct.Params) {
			name = ct.Params[i].Name
		}
		if name == "" || name == "_" {
			name = fmt.Sprintf("a%d", i)
		}
		var v Value
		if sig.Variadic() && i == sig.Params().Len()-1 && !call.Ellipsis.IsValid() {
			v = c.zeroValue(p.Type())
		} else if i < len(args) {
			var at types.Type
			if i < len(call.Args) {
				at = e.Info.TypeOf(call.Args[i])
			}
			v = e.convertAssign(args[i], at, p.Type(), st)
			// an interface-typed parameter bound to a concrete pointer: specs may select its fields
			if _, isI := p.Type().Underlying().(*types.Interface); isI && at != nil {
				if _, isP := at.Underlying().(*types.Pointer); isP {
					b.vals[name] = TV{v, at}
					continue
				}
			}
		} else {
			v = c.zeroValue(p.Type())
		}
		b.vals[name] = TV{v, p.Type()}
	}
	// the contract may still use the baseline names of a renamed receiver / parameter
	if fi != nil {
		if base := loadedBaseline[fi.Key]; len(base) > 0 {
			cur, _ := funcVars(fi)
			for _, bv := range base {
				if bv.Kind != "param" {
					continue
				}
				if _, has := b.vals[bv.Name]; has {
					continue
				}
				for _, cv := range cur {
					if cv.Kind == "param" && cv.Ord == bv.Ord && cv.Type == bv.Type {
						if v, ok := b.vals[cv.Name]; ok {
							b.vals[bv.Name] = v
						}
					}
				}
			}
		}
	}
	se := &SpecEnv{C: c, Pkg: specPkg, B: b, Cur: st, Old: st}
	// preconditions
	ord := c.callOrdinal(call, cl)
	for i, r := range ct.Requires {
		g := se.evalBool(r.Expr)
		label := r.Label
		if label == "" {
			label = fmt.Sprintf("%d", i+1)
		}
		if c.Contract != nil && c.Contract.Flags["assumepre"] != "" {
			// the caller's contract leaves the representation invariants its callees need unproved: listed
			c.noteAssumed(fmt.Sprintf("%s: precondition of %s assumed: %s", c.Name, ord, r.Text))
		} else {
			c.oblige(st, "pre", fmt.Sprintf("pre(%s, %s)", ord, label), call.Pos(), g, r.Text)
		}
		st.assume(g)
	}
	old := st.clone()
	// event / call counters the callee may advance
	if ct.Flags["pure"] == "" {
		c.havocCounters(st, c.W.effectsOfCall(e.Info, call))
	}
	// frame
	if ct.Flags["pure"] == "" {
		if len(ct.Modifies) > 0 {
			for _, m := range ct.Modifies {
				se.havocModifies(m.Text, st)
			}
		} else if fi != nil {
			c.havocForCall(e, st, cl.fn, call)
		} else if wr := ct.Flags["effects"]; wr != "" {
			// assumed write set of an interface / external method
			c.havocWriteSet(st, strings.Fields(wr))
			old := c.heapGet(st, "$alloc", SInt)
			n := c.freshVar("$alloc", SInt)
			st.heap["$alloc"] = n
			st.assume(IGe(n, old))
		} else {
			c.havocAll(st, "contracted external call without modifies")
		}
	}
	// results
	var res Value
	post := &SpecEnv{C: c, Pkg: specPkg, B: &Bindings{vals: map[string]TV{}}, Cur: st, Old: old}
	for k, v := range b.vals {
		post.B.vals[k] = v
	}
	var rvals []Value
	for i := 0; i < sig.Results().Len(); i++ {
		rv := sig.Results().At(i)
		v, facts := c.freshValue(rv.Type(), "r_"+cl.fn.Name())
		for _, f := range facts {
			st.assume(f)
		}
		rvals = append(rvals, v)
		post.B.vals[fmt.Sprintf("ret%d", i)] = TV{v, rv.Type()}
		if rv.Name() != "" && rv.Name() != "_" {
			post.B.vals[rv.Name()] = TV{v, rv.Type()}
		}
		if i == 0 {
			post.B.vals["result"] = TV{v, rv.Type()}
		}
	}
	// "touches held(x.l), ...": lock counters the callee changes
	for _, ex := range ct.Extra {
		if ex.Kind == "touches" {
			for _, item := range splitTopLevel(ex.Text, ',') {
				c.touchLock(post, item, st)
			}
		}
	}
	// "defines f(args)": the real function is the definition of the extern spec function f
	for _, ex := range ct.Extra {
		if ex.Kind == "defines" {
			de, err := parseSpec(ex.Text)
			if err != nil {
				panic(specFail(err.Error()))
			}
			if len(rvals) == 1 {
				if rt, ok := rvals[0].(*Term); ok {
					dv := post.evalTerm(de)
					st.assume(Eq(rt, coerce(dv, rt.Sort)))
					c.noteAssumed("extern spec function defined by real code (determinism of side-effect-free Go): " + cl.fn.FullName() + " = " + ex.Text)
				}
			}
		}
	}
	// allocation only grows; everything returned is allocated
	{
		oldAlloc := c.heapGet(st, "$alloc", SInt)
		na := c.freshVar("$alloc", SInt)
		st.heap["$alloc"] = na
		st.assume(IGe(na, oldAlloc))
		for i, v := range rvals {
			c.assumeAllocated(st, v, sig.Results().At(i).Type(), na)
		}
	}
	for _, en := range ct.Ensures {
		if en.Local {
			continue
		}
		st.assume(post.evalBool(en.Expr))
	}
	c.protoAfterContract(e, st, old, ct, post)
	switch len(rvals) {
	case 0:
		res = IntC(0)
	case 1:
		res = rvals[0]
	default:
		res = &TupleV{Vs: rvals}
	}
	return res
}

// assumeAllocated: refs and slice bases inside v are below the allocation counter.
func (c *FCtx) assumeAllocated(st *State, v Value, t types.Type, alloc *Term) {
	switch x := v.(type) {
	case *SliceV:
		st.assume(ILt(x.Base, alloc))
	case *Term:
		if x.Sort == SInt && t != nil {
			switch t.Underlying().(type) {
			case *types.Pointer, *types.Interface, *types.Map, *types.Chan:
				st.assume(ILt(x, alloc))
			}
		}
	case *StructV:
		s := structOf(x.Typ)
		if s == nil {
			return
		}
		for i := 0; i < s.NumFields(); i++ {
			c.assumeAllocated(st, x.F[s.Field(i).Name()], s.Field(i).Type(), alloc)
		}
	}
}

func (c *FCtx) callOrdinal(call *ast.CallExpr, cl callee) string {
	if s, ok := c.callOrd[call.Lparen]; ok {
		return s
	}
	name := cl.fn.Name()
	if fi := c.W.ByObj[cl.fn]; fi != nil {
		name = fi.Short
	} else if cl.iface {
		name = extKey(cl.fn)
	}
	return name + "#?"
}

// ---- library models ----

func (e *Env) modelCall(call *ast.CallExpr, st *State, cl callee, recvVal Value, args []Value) (Value, bool) {
	c := e.C
	full := cl.full
	switch {
	case strings.HasPrefix(full, "(encoding/binary.littleEndian)."):
		name := cl.fn.Name()
		var w int
		switch {
		case strings.HasSuffix(name, "16"):
			w = 2
		case strings.HasSuffix(name, "32"):
			w = 4
		case strings.HasSuffix(name, "64"):
			w = 8
		default:
			return nil, false
		}
		sl, ok := e.asSlice(args[0], e.Info.TypeOf(call.Args[0]), st)
		if !ok {
			return nil, false
		}
		c.safety(st, "bounds", call.Pos(), c.ile(c.idxC(int64(w)), sl.Len), fmt.Sprintf("binary.%s needs %d bytes", name, w))
		if strings.HasPrefix(name, "Uint") {
			return c.leLoad(st, sl, c.idxC(0), w), true
		}
		if strings.HasPrefix(name, "PutUint") {
			v, ok := args[1].(*Term)
			if !ok {
				return nil, false
			}
			c.leStore(st, sl, c.idxC(0), w, v)
			return IntC(0), true
		}
	case full == "errors.New" || full == "fmt.Errorf" || full == "github.com/syndtr/goleveldb/leveldb/errors.New":
		return c.newRef(st, "err"), true
	case full == "fmt.Sprintf" || full == "fmt.Sprint" || full == "fmt.Sprintln":
		v, facts := c.freshValue(types.Typ[types.String], "str")
		for _, f := range facts {
			st.assume(f)
		}
		return v, true
	case full == "bytes.Compare":
		a, ok1 := e.asSlice(args[0], e.Info.TypeOf(call.Args[0]), st)
		b, ok2 := e.asSlice(args[1], e.Info.TypeOf(call.Args[1]), st)
		if ok1 && ok2 {
			c.needAxioms("lexcmp")
			r := App("lexcmp", SInt, c.bytesOf(st, a), c.bytesOf(st, b))
			if c.Mode == ModeBV {
				r = App("lexcmp", SBV(64), c.bytesOf(st, a), c.bytesOf(st, b))
			}
			return r, true
		}
	case full == "bytes.Equal":
		a, ok1 := e.asSlice(args[0], e.Info.TypeOf(call.Args[0]), st)
		b, ok2 := e.asSlice(args[1], e.Info.TypeOf(call.Args[1]), st)
		if ok1 && ok2 {
			return Eq(c.bytesOf(st, a), c.bytesOf(st, b)), true
		}
	case full == "runtime.SetFinalizer" || strings.HasPrefix(full, "(*log.") || strings.HasPrefix(full, "log."):
		return IntC(0), true
	case full == "time.Now" || full == "time.Since" || strings.HasPrefix(full, "(time.Time).") || strings.HasPrefix(full, "(time.Duration)."):
		return e.opaque(call, st), true
	}
	return nil, false
}

// leLoad reads a w-byte little-endian unsigned integer at sl[at...].
func (c *FCtx) leLoad(st *State, sl *SliceV, at *Term, w int) *Term {
	bs := &SliceV{Base: sl.Base, Off: sl.Off, Len: sl.Len, Cap: sl.Cap, Elem: types.Typ[types.Uint8]}
	if c.Mode == ModeBV {
		var r *Term
		for k := 0; k < w; k++ {
			b := c.loadElem(st, bs, c.iadd(at, c.idxC(int64(k)))).(*Term)
			if r == nil {
				r = b
			} else {
				r = bvConcat(b, r)
			}
		}
		return r
	}
	var r *Term = IntC(0)
	for k := 0; k < w; k++ {
		b := c.loadElem(st, bs, c.iadd(at, c.idxC(int64(k)))).(*Term)
		r = IAdd(r, IMul(b, IntBig(pow2(8*k))))
	}
	return r
}

func (c *FCtx) leStore(st *State, sl *SliceV, at *Term, w int, v *Term) {
	bs := &SliceV{Base: sl.Base, Off: sl.Off, Len: sl.Len, Cap: sl.Cap, Elem: types.Typ[types.Uint8]}
	v = c.define("lev", v)
	for k := 0; k < w; k++ {
		var b *Term
		if c.Mode == ModeBV {
			if v.Op == "int" {
				v = BVC(v.Val, 8*w)
			}
			b = bvExtract(8*k+7, 8*k, v)
		} else {
			b = IModE(IDivE(v, IntBig(pow2(8*k))), IntC(256))
		}
		c.storeElem(st, bs, c.iadd(at, c.idxC(int64(k))), b)
	}
}

// bytesOf is the abstract byte-sequence value of a slice in the given state.
func (c *FCtx) bytesOf(st *State, sl *SliceV) *Term {
	key := c.memKey(types.Typ[types.Uint8])
	var bsort Sort = SInt
	if c.Mode == ModeBV {
		bsort = SBV(8)
	}
	var mem *Term
	if st != nil {
		mem = c.heapGet(st, key, SArr(SInt, SArr(c.idxSort(), bsort)))
	} else {
		mem = Var(key+"@pre", SArr(SInt, SArr(c.idxSort(), bsort)))
	}
	c.needAxioms("bytes")
	return App("bytes$", SBytes, Select(mem, sl.Base), sl.Off, sl.Len)
}

var _ = big.NewInt

// assumeDef records a definitional fact about a fresh symbol (an array built by append, ...): it constrains only
// that symbol and is satisfiable in every state, so it holds on every path and is given to every later obligation
// directly (not folded into the branch condition it was created under).
func (c *FCtx) assumeDef(st *State, t *Term) {
	st.assume(t)
	c.Globals = append(c.Globals, t)
}
