package main

// C09 lock-balance sweep: every function that acquires or releases a mutex or a lock channel is checked to
// leave every lock as it found it on every exit, unless its contract says otherwise (touches + ensures).

import (
	"sort"
	"strings"
)

var sweepCache = map[*Contract]*Contract{}

func mentionsLock(text string) bool {
	return strings.Contains(text, "held(") || strings.Contains(text, "rheld(")
}

// sweepContract keeps only the lock-related clauses of a contract.
func sweepContract(ct *Contract) *Contract {
	if ct == nil {
		return nil
	}
	if f, ok := sweepCache[ct]; ok {
		return f
	}
	n := &Contract{Kind: ct.Kind, Key: ct.Key, PkgName: ct.PkgName, File: ct.File, Line: ct.Line, Props: ct.Props,
		Mode: "", Safety: "off", Loops: map[int]*LoopSpec{}, Flags: map[string]string{}, Params: ct.Params}
	for k, v := range ct.Flags {
		if k == "pure" && ct.Kind == "interface" {
			// purity of an interface method is an assumption on its implementations (a user's comparer, a filter)
			// that every other check makes too; without it a call of Compare between taking a lock and using the
			// locked object would be taken to move the object
			n.Flags[k] = v
			continue
		}
		if k == "pure" || k == "trusted" || k == "frame" {
			continue
		}
		n.Flags[k] = v
	}
	n.Flags["frame"] = "off"
	keep := func(cl *Clause) bool {
		return mentionsLock(cl.Text) || strings.HasPrefix(cl.Label, "lk-") || labelNames(cl.Label, "C09")
	}
	for _, r := range ct.Requires {
		if keep(r) {
			n.Requires = append(n.Requires, r)
		}
	}
	for _, r := range ct.Ensures {
		if keep(r) {
			n.Ensures = append(n.Ensures, r)
		}
	}
	for k, l := range ct.Loops {
		nl := &LoopSpec{Ordinal: l.Ordinal}
		for _, inv := range l.Invs {
			if keep(inv) {
				nl.Invs = append(nl.Invs, inv)
			}
		}
		if len(nl.Invs) > 0 {
			n.Loops[k] = nl
		}
	}
	for k, l := range ct.LabelLoops {
		nl := &LoopSpec{Ordinal: -1}
		for _, inv := range l.Invs {
			if keep(inv) {
				nl.Invs = append(nl.Invs, inv)
			}
		}
		if len(nl.Invs) > 0 {
			if n.LabelLoops == nil {
				n.LabelLoops = map[string]*LoopSpec{}
			}
			n.LabelLoops[k] = nl
		}
	}
	for _, ex := range ct.Extra {
		if ex.Kind == "touches" {
			n.Extra = append(n.Extra, ex)
		}
	}
	for _, at := range ct.Ats {
		na := &AtSpec{Where: at.Where}
		for _, cl := range at.Clauses {
			// ghost assignments carry the state the kept assertions speak of
			if keep(cl) || cl.Kind == "ghost" {
				na.Clauses = append(na.Clauses, cl)
			}
		}
		if len(na.Clauses) > 0 {
			n.Ats = append(n.Ats, na)
		}
	}
	sweepCache[ct] = n
	return n
}

// labelNames: the clause label is scoped ("[C09,C18:name]") and names the property.
func labelNames(label, prop string) bool {
	k := strings.Index(label, ":")
	if k < 0 {
		return false
	}
	for _, p := range strings.Split(label[:k], ",") {
		if p == prop {
			return true
		}
	}
	return false
}

func hasTouches(ct *Contract) bool {
	if ct == nil {
		return false
	}
	for _, ex := range ct.Extra {
		if ex.Kind == "touches" {
			return true
		}
	}
	return false
}

// sweepTargets: functions with lock effects (direct or through callees that change lock state).
func (w *World) sweepTargets() []*FuncInfo {
	var out []*FuncInfo
	for _, fi := range w.Funcs {
		if fi.Obj == nil {
			continue
		}
		eff := w.effectsOf(fi.Obj)
		ct := w.Specs.ByKey[fi.Key]
		// ... and every function whose contract is scoped to C09 (its C09-labelled clauses are kept by the sweep view),
		// whether or not it touches a lock itself
		if (eff != nil && len(eff.Locks) > 0 && w.directLockOps(fi)) || hasTouches(ct) || (ct != nil && ct.Flags["trusted"] == "" && ct.HasProp("C09")) {
			out = append(out, fi)
		}
	}
	sort.Slice(out, func(i, j int) bool { return out[i].Key < out[j].Key })
	return out
}

// directLockOps: the function itself (or a callee whose contract changes lock state) touches a lock; functions
// that only call balanced callees are balanced by modular reasoning and need no check of their own.
func (w *World) directLockOps(fi *FuncInfo) bool {
	saved := w.noCalleeEffects
	w.noCalleeEffects = true
	eff := w.scanEffects(fi.Pkg.TypesInfo, fi.Decl.Body)
	w.noCalleeEffects = saved
	if len(eff.Locks) > 0 {
		return true
	}
	return w.callsTouching(fi)
}

func (w *World) runSweep(o *Options) []*FuncResult {
	var out []*FuncResult
	for _, fi := range w.sweepTargets() {
		if o.Only != "" && !strings.Contains(fi.Key, o.Only) {
			continue
		}
		ct := sweepContract(w.Specs.ByKey[fi.Key])
		r := w.verifyFuncMode(fi, ct, false, o.Prop, true)
		out = append(out, r)
	}
	return out
}

var viewCache = map[string]*Contract{}

// clauseFor: a clause labelled [Cxx:...] or [Cxx,Cyy:...] belongs to those properties only.
func clauseFor(cl *Clause, prop string) bool {
	k := strings.Index(cl.Label, ":")
	if k < 0 {
		return inScope(cl, prop)
	}
	head := cl.Label[:k]
	isProps := true
	for _, p := range strings.Split(head, ",") {
		if len(p) < 3 || p[0] != 'C' {
			isProps = false
		}
	}
	if !isProps {
		return inScope(cl, prop)
	}
	for _, p := range strings.Split(head, ",") {
		if p == prop {
			return true
		}
	}
	return false
}

func inScope(cl *Clause, prop string) bool {
	if len(cl.Scope) == 0 {
		return true
	}
	for _, p := range cl.Scope {
		if p == prop {
			return true
		}
	}
	return false
}

// propView: the slice of a contract that takes part in the check of one property. A contract without props is a
// library-level contract and takes part everywhere; a contract tagged with other properties only is invisible
// (its function is then treated as un-contracted: inlined or summarised by its effects).
func propView(ct *Contract, prop string) *Contract {
	if ct == nil {
		return nil
	}
	if len(ct.Props) == 0 {
		return ct
	}
	if !ct.HasProp(prop) {
		return nil
	}
	key := ct.PkgName + "." + ct.Key + "@" + prop + "@" + ct.Kind
	if v, ok := viewCache[key]; ok {
		return v
	}
	n := *ct
	n.Requires, n.Ensures, n.Extra = nil, nil, nil
	n.Flags = map[string]string{}
	for k, v := range ct.Flags {
		sc := ct.FlagScope[k]
		ok := len(sc) == 0
		for _, p := range sc {
			if p == prop {
				ok = true
			}
		}
		if ok {
			n.Flags[k] = v
		}
	}
	for _, r := range ct.Requires {
		if clauseFor(r, prop) {
			n.Requires = append(n.Requires, r)
		}
	}
	for _, r := range ct.Ensures {
		if clauseFor(r, prop) {
			n.Ensures = append(n.Ensures, r)
		}
	}
	for _, r := range ct.Extra {
		if clauseFor(r, prop) {
			n.Extra = append(n.Extra, r)
		}
	}
	n.Loops = map[int]*LoopSpec{}
	for k, l := range ct.Loops {
		nl := *l
		nl.Invs = nil
		for _, inv := range l.Invs {
			if clauseFor(inv, prop) {
				nl.Invs = append(nl.Invs, inv)
			}
		}
		n.Loops[k] = &nl
	}
	n.Ats = nil
	for _, at := range ct.Ats {
		na := &AtSpec{Where: at.Where}
		for _, cl := range at.Clauses {
			if clauseFor(cl, prop) {
				na.Clauses = append(na.Clauses, cl)
			}
		}
		if len(na.Clauses) > 0 {
			n.Ats = append(n.Ats, na)
		}
	}
	viewCache[key] = &n
	return &n
}

// countedCall: "count <func key>" declarations.
func (w *World) countedCall(fi *FuncInfo) bool {
	for _, d := range w.Specs.Decls {
		if d.Kind == "count" && d.PkgName == fi.Pkg.Name && strings.TrimSpace(d.Text) == fi.Short {
			return true
		}
	}
	return false
}

// countedExt: "count storage.Storage.SetMeta" style declarations for interface / external methods.
func (w *World) countedExt(name string) bool {
	for _, d := range w.Specs.Decls {
		if d.Kind == "count" && strings.TrimSpace(d.Text) == name {
			return true
		}
	}
	return false
}

// countedName: the name appears in a count directive.
func (w *World) countedName(name string) bool {
	for _, d := range w.Specs.Decls {
		if d.Kind == "count" && strings.TrimSpace(d.Text) == name {
			return true
		}
	}
	return false
}
