package main

// Rename robustness. Contracts name Go locals, parameters and receivers; a harmless rename must not turn into an
// alarm. A baseline (/verif/baseline/locals.json, generated from the pinned tree with "gocv baseline" and
// committed) records for every function under contract its variables as (name, type, ordinal among the
// variables of that type in source order; parameters and receiver by position). When the code no longer has a
// variable of a name the baseline knows, and has instead a variable the baseline does not know with the same
// type and ordinal, the contract name is bound to that variable (the rename is printed as a note). Statement
// anchors are matched with current names replaced by baseline names.

import (
	"encoding/json"
	"fmt"
	"go/ast"
	"go/types"
	"os"
	"path/filepath"
	"sort"
	"strings"
)

type baseVar struct {
	Name string `json:"name"`
	Type string `json:"type"`
	Ord  int    `json:"ord"`
	Kind string `json:"kind"` // "local" | "param" (receiver, parameters, named results by position)
}

type baseline map[string][]baseVar // function key -> variables

var loadedBaseline baseline

func baselinePath(o *Options) string {
	return filepath.Join(filepath.Dir(o.Findings), "baseline", "locals.json")
}

func loadBaseline(o *Options) {
	loadedBaseline = baseline{}
	data, err := os.ReadFile(baselinePath(o))
	if err != nil {
		return
	}
	_ = json.Unmarshal(data, &loadedBaseline)
}

// funcVars lists the variables of a function in the baseline's form, with their objects.
func funcVars(fi *FuncInfo) ([]baseVar, []types.Object) {
	info := fi.Pkg.TypesInfo
	var vars []baseVar
	var objs []types.Object
	q := types.RelativeTo(fi.Pkg.Types)
	pos := 0
	addParam := func(fl *ast.FieldList) {
		if fl == nil {
			return
		}
		for _, f := range fl.List {
			for _, n := range f.Names {
				if obj := info.Defs[n]; obj != nil {
					vars = append(vars, baseVar{Name: n.Name, Type: types.TypeString(obj.Type(), q), Ord: pos, Kind: "param"})
					objs = append(objs, obj)
				}
				pos++
			}
			if len(f.Names) == 0 {
				pos++
			}
		}
	}
	addParam(fi.Decl.Recv)
	addParam(fi.Decl.Type.Params)
	addParam(fi.Decl.Type.Results)
	type lv struct {
		id  *ast.Ident
		obj types.Object
	}
	var ls []lv
	ast.Inspect(fi.Decl.Body, func(n ast.Node) bool {
		if id, ok := n.(*ast.Ident); ok {
			if obj, isV := info.Defs[id].(*types.Var); isV && obj != nil && !obj.IsField() {
				ls = append(ls, lv{id, obj})
			}
		}
		return true
	})
	sort.SliceStable(ls, func(i, j int) bool { return ls[i].id.Pos() < ls[j].id.Pos() })
	cnt := map[string]int{}
	for _, l := range ls {
		ts := types.TypeString(l.obj.Type(), q)
		vars = append(vars, baseVar{Name: l.id.Name, Type: ts, Ord: cnt[ts], Kind: "local"})
		objs = append(objs, l.obj)
		cnt[ts]++
	}
	return vars, objs
}

func runBaseline(o *Options) int {
	w, err := loadAll(o)
	if err != nil {
		fmt.Println("ERROR", err)
		return 2
	}
	b := baseline{}
	for _, ct := range w.Specs.Contracts {
		if ct.Kind != "func" {
			continue
		}
		fi := w.Funcs[ct.PkgName+"."+ct.Key]
		if fi == nil || fi.Decl == nil || fi.Decl.Body == nil {
			continue
		}
		vs, _ := funcVars(fi)
		b[fi.Key] = vs
	}
	data, _ := json.MarshalIndent(b, "", " ")
	os.MkdirAll(filepath.Dir(baselinePath(o)), 0o755)
	if err := os.WriteFile(baselinePath(o), data, 0o644); err != nil {
		fmt.Println("ERROR", err)
		return 2
	}
	fmt.Printf("baseline: %d functions\n", len(b))
	return 0
}

// renames computes, for a function, the variables whose baseline name differs: baseline name -> current object.
func (c *FCtx) computeRenames(fi *FuncInfo) {
	c.renamed = map[string]types.Object{}
	c.renamedCur = map[string]string{}
	base := loadedBaseline[fi.Key]
	if len(base) == 0 {
		return
	}
	cur, objs := funcVars(fi)
	curNames := map[string]bool{}
	for _, v := range cur {
		curNames[v.Kind+":"+v.Name] = true
	}
	baseNames := map[string]bool{}
	for _, v := range base {
		baseNames[v.Kind+":"+v.Name] = true
	}
	for _, bv := range base {
		if curNames[bv.Kind+":"+bv.Name] {
			continue // still there under its name
		}
		for i, cv := range cur {
			if cv.Kind == bv.Kind && cv.Type == bv.Type && cv.Ord == bv.Ord && !baseNames[cv.Kind+":"+cv.Name] {
				if _, dup := c.renamed[bv.Name]; dup {
					continue
				}
				c.renamed[bv.Name] = objs[i]
				c.renamedCur[cv.Name] = bv.Name
				c.note("variable %s of the contract's baseline is now called %s (rename followed)", bv.Name, cv.Name)
			}
		}
	}
}

// baselineText rewrites the identifiers of a statement's text to their baseline names.
func (c *FCtx) baselineText(s string) string {
	if len(c.renamedCur) == 0 {
		return s
	}
	var sb strings.Builder
	i := 0
	isId := func(b byte) bool {
		return b == '_' || (b >= '0' && b <= '9') || (b >= 'a' && b <= 'z') || (b >= 'A' && b <= 'Z') || b >= 0x80
	}
	for i < len(s) {
		if isId(s[i]) && (i == 0 || !isId(s[i-1])) {
			j := i
			for j < len(s) && isId(s[j]) {
				j++
			}
			w := s[i:j]
			if bn, ok := c.renamedCur[w]; ok && (i == 0 || s[i-1] != '.') {
				sb.WriteString(bn)
			} else {
				sb.WriteString(w)
			}
			i = j
			continue
		}
		sb.WriteByte(s[i])
		i++
	}
	return sb.String()
}
