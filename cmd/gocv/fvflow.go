package main

// Flow of function values (literals, named functions, method values) into variables, parameters and struct
// fields, flow-insensitively over the loaded packages; used to resolve calls through function values more
// precisely than by signature alone.

import (
	"go/ast"
	"go/token"
	"go/types"
)

type fset struct {
	nodes map[*cgNode]bool
	top   bool
}

func (f *fset) add(o *fset) bool {
	ch := false
	if o.top && !f.top {
		f.top = true
		ch = true
	}
	for n := range o.nodes {
		if !f.nodes[n] {
			f.nodes[n] = true
			ch = true
		}
	}
	return ch
}

type fvFlow struct {
	flow map[types.Object]*fset
}

func (ff *fvFlow) get(o types.Object) *fset {
	s, ok := ff.flow[o]
	if !ok {
		s = &fset{nodes: map[*cgNode]bool{}}
		ff.flow[o] = s
	}
	return s
}

func isFuncType(t types.Type) bool {
	if t == nil {
		return false
	}
	_, ok := t.Underlying().(*types.Signature)
	return ok
}

func isFuncSlice(t types.Type) bool {
	if t == nil {
		return false
	}
	if s, ok := t.Underlying().(*types.Slice); ok {
		return isFuncType(s.Elem())
	}
	return false
}

// sources: the function values an expression may evaluate to.
func (w *World) fvSources(ff *fvFlow, info *types.Info, e ast.Expr) *fset {
	g := w.cg
	out := &fset{nodes: map[*cgNode]bool{}}
	e = stripParens(e)
	switch x := e.(type) {
	case *ast.FuncLit:
		if n := g.byLit[x]; n != nil {
			out.nodes[n] = true
		}
		return out
	case *ast.Ident:
		switch o := info.Uses[x].(type) {
		case *types.Nil:
			return out
		case *types.Func:
			if n := g.byFunc[o]; n != nil {
				out.nodes[n] = true
			}
			return out // external functions do not touch our state
		case *types.Var:
			out.add(ff.get(o))
			if o.IsField() || (o.Pkg() != nil && o.Parent() == o.Pkg().Scope()) {
				// fields and globals: what was stored
			}
			return out
		}
	case *ast.SelectorExpr:
		if sel := info.Selections[x]; sel != nil {
			switch sel.Kind() {
			case types.FieldVal:
				out.add(ff.get(sel.Obj()))
				return out
			case types.MethodVal, types.MethodExpr:
				if fn, ok := sel.Obj().(*types.Func); ok {
					if _, isI := sel.Recv().Underlying().(*types.Interface); isI {
						for _, n := range w.resolveDyn(dynCall{method: fn.Name(), sig: fn.Type().(*types.Signature), recvT: sel.Recv()}) {
							out.nodes[n] = true
						}
						return out
					}
					if n := g.byFunc[fn]; n != nil {
						out.nodes[n] = true
					}
					return out
				}
			}
		} else if fn, ok := info.Uses[x.Sel].(*types.Func); ok {
			if n := g.byFunc[fn]; n != nil {
				out.nodes[n] = true
			}
			return out
		} else if v, ok := info.Uses[x.Sel].(*types.Var); ok {
			out.add(ff.get(v))
			return out
		}
	case *ast.IndexExpr:
		// element of a slice/map of functions held in a variable or field
		return w.fvSources(ff, info, x.X)
	case *ast.CallExpr:
		if id, ok := stripParens(x.Fun).(*ast.Ident); ok && id.Name == "append" && len(x.Args) > 0 {
			for _, a := range x.Args {
				out.add(w.fvSources(ff, info, a))
			}
			return out
		}
		if tv, ok := info.Types[x.Fun]; ok && tv.IsType() && len(x.Args) == 1 {
			return w.fvSources(ff, info, x.Args[0])
		}
	}
	out.top = true
	return out
}

// buildFVFlow computes the flow sets to a fixpoint.
func (w *World) buildFVFlow() *fvFlow {
	ff := &fvFlow{flow: map[types.Object]*fset{}}
	type edge struct {
		dst  types.Object
		info *types.Info
		src  ast.Expr
	}
	var edges []edge
	lhsObj := func(info *types.Info, l ast.Expr) types.Object {
		l = stripParens(l)
		switch y := l.(type) {
		case *ast.Ident:
			if o := info.Defs[y]; o != nil {
				return o
			}
			return info.Uses[y]
		case *ast.SelectorExpr:
			if sel := info.Selections[y]; sel != nil && sel.Kind() == types.FieldVal {
				return sel.Obj()
			}
			if v, ok := info.Uses[y.Sel].(*types.Var); ok {
				return v
			}
		case *ast.IndexExpr:
			return lhsObjOf(info, y.X)
		}
		return nil
	}
	for _, p := range w.Pkgs {
		info := p.TypesInfo
		for _, f := range p.Syntax {
			ast.Inspect(f, func(n ast.Node) bool {
				switch x := n.(type) {
				case *ast.AssignStmt:
					if len(x.Lhs) == len(x.Rhs) {
						for i := range x.Lhs {
							t := info.TypeOf(x.Rhs[i])
							if isFuncType(t) || isFuncSlice(t) {
								if o := lhsObj(info, x.Lhs[i]); o != nil {
									edges = append(edges, edge{o, info, x.Rhs[i]})
								}
							}
						}
					}
				case *ast.ValueSpec:
					if len(x.Names) == len(x.Values) {
						for i, nm := range x.Names {
							t := info.TypeOf(x.Values[i])
							if isFuncType(t) || isFuncSlice(t) {
								if o := info.Defs[nm]; o != nil {
									edges = append(edges, edge{o, info, x.Values[i]})
								}
							}
						}
					}
				case *ast.CompositeLit:
					t := info.TypeOf(x)
					if t == nil {
						return true
					}
					if st, ok := t.Underlying().(*types.Struct); ok {
						for i, el := range x.Elts {
							var fld *types.Var
							var val ast.Expr
							if kv, ok := el.(*ast.KeyValueExpr); ok {
								if id, ok := kv.Key.(*ast.Ident); ok {
									for k := 0; k < st.NumFields(); k++ {
										if st.Field(k).Name() == id.Name {
											fld = st.Field(k)
										}
									}
								}
								val = kv.Value
							} else if i < st.NumFields() {
								fld, val = st.Field(i), el
							}
							if fld != nil && (isFuncType(fld.Type()) || isFuncSlice(fld.Type())) {
								edges = append(edges, edge{fld, info, val})
							}
						}
					}
				case *ast.CallExpr:
					if tv, ok := info.Types[x.Fun]; ok && tv.IsType() {
						return true
					}
					// arguments flow into the parameters of every possible callee
					var targets []*cgNode
					fn := staticCallee(info, x)
					if fn != nil {
						if sx, ok := stripParens(x.Fun).(*ast.SelectorExpr); ok {
							if sel := info.Selections[sx]; sel != nil {
								if _, isI := sel.Recv().Underlying().(*types.Interface); isI {
									targets = w.resolveDyn(dynCall{method: fn.Name(), sig: fn.Type().(*types.Signature), recvT: sel.Recv()})
								}
							}
						}
						if len(targets) == 0 {
							if n := w.cg.byFunc[fn]; n != nil {
								targets = []*cgNode{n}
							}
						}
					}
					for _, tnode := range targets {
						if tnode.sig == nil {
							continue
						}
						for i, a := range x.Args {
							if i >= tnode.sig.Params().Len() {
								break
							}
							pv := tnode.sig.Params().At(i)
							if isFuncType(pv.Type()) || isFuncSlice(pv.Type()) {
								edges = append(edges, edge{pv, info, a})
							}
						}
					}
				}
				return true
			})
		}
	}
	for changed := true; changed; {
		changed = false
		for _, ed := range edges {
			if ff.get(ed.dst).add(w.fvSources(ff, ed.info, ed.src)) {
				changed = true
			}
		}
	}
	return ff
}

func lhsObjOf(info *types.Info, l ast.Expr) types.Object {
	l = stripParens(l)
	switch y := l.(type) {
	case *ast.Ident:
		if o := info.Defs[y]; o != nil {
			return o
		}
		return info.Uses[y]
	case *ast.SelectorExpr:
		if sel := info.Selections[y]; sel != nil && sel.Kind() == types.FieldVal {
			return sel.Obj()
		}
	}
	return nil
}

var _ = token.NoPos
