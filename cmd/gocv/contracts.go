package main

// Contract files: /repo/<pkg>/zz_contracts_verif.go, comment-only, build tag verif.

import (
	"fmt"
	"os"
	"regexp"
	"strconv"
	"strings"
)

type Clause struct {
	Local   bool // proved at returns, not exported to callers
	Assumed bool // exported to callers, not proved (listed as an assumption)
	Kind  string
	Label string
	Scope []string // properties of the block the clause was written in
	Text  string
	Expr  *SExpr
	File  string
	Line  int
}

type LoopSpec struct {
	Ordinal   int
	Invs      []*Clause
	Decreases *Clause
	Modifies  []*Clause
	Uses      []*Clause
	Bounded   int
}

type AtSpec struct {
	Where   string // "call (*Writer).fillHeader#1", "return#2"
	Clauses []*Clause
}

type Param struct{ Name, Type string }

type Contract struct {
	Kind     string // "func" "interface" "lemma"
	Key      string // "(*Writer).fillHeader" / "comparer.Comparer.Compare" / lemma name
	PkgName  string
	File     string
	Line     int
	Props    []string
	Mode     string
	Safety   string // "on" "off" ""
	Requires []*Clause
	Ensures  []*Clause
	Modifies []*Clause
	Uses     []*Clause
	Loops    map[int]*LoopSpec
	LabelLoops map[string]*LoopSpec
	Ats      []*AtSpec
	Flags    map[string]string // trusted, pure, inline, frame, panics, ...
	Params   []Param           // lemma parameters
	FlagScope map[string][]string // properties a flag applies to (nil / empty: all)
	Extra    []*Clause         // property-specific clauses: balanced, order, noescape, nowrite, fresh, ...
}

func (c *Contract) HasProp(p string) bool {
	for _, x := range c.Props {
		if x == p {
			return true
		}
	}
	return false
}

type SpecFunc struct {
	Name    string
	PkgName string
	Params  []Param
	Result  string
	Body    *SExpr
	Extern  string
	Rec     bool
	Opaque  bool
	File    string
	Line    int
}

type GhostField struct {
	Recv, Name, Type string
	PkgName          string
}

type Pred struct {
	Recv, Name string
	RecvVar    string
	Body       *SExpr
	PkgName    string
}

type Axiom struct {
	Name    string
	Expr    *SExpr
	PkgName string
	Text    string
}

type Decl struct {
	Kind, Text, PkgName, File string
	Line                     int
}

type SpecWorld struct {
	Contracts  []*Contract
	ByKey      map[string]*Contract // "journal.(*Writer).fillHeader", "iface:comparer.Comparer.Compare", "lemma:name"
	SpecFuncs  map[string]*SpecFunc // by name (global namespace)
	Ghosts     []*GhostField
	GhostVars  map[string]string // global ghost variables: name -> type
	Preds      map[string]*Pred // "journal.Writer.wf"
	Axioms     []*Axiom
	Decls      []*Decl // lock / event / transfer / lockinv / protect declarations
	TrustedLog []string
}

var clauseKeywords = map[string]bool{
	"props": true, "mode": true, "safety": true, "requires": true, "ensures": true, "modifies": true,
	"invariant": true, "decreases": true, "loop": true, "assert": true, "use": true, "witness": true,
	"trusted": true, "bounded": true, "at": true, "frame": true, "inline": true, "pure": true,
	"balanced": true, "order": true, "noescape": true, "nowrite": true, "fresh": true, "reveal": true,
	"assume": true, "panics": true, "params": true, "ghost": true, "effects": true, "transfers": true,
	"havoc": true, "splitpaths": true, "deepinst": true, "assumepre": true, "sortedinput": true, "unwinds": true, "calls": true, "nocall": true, "returns": true, "abstract": true, "note": true, "guarantees": true, "defines": true, "touches": true, "assumes": true,
}

var labelRe = regexp.MustCompile(`^\[([A-Za-z0-9_\-./<>=:,]+)\]\s*`)

type rawLine struct {
	indent int
	text   string
	line   int
}

func readContractLines(file string) ([]rawLine, string, error) {
	data, err := os.ReadFile(file)
	if err != nil {
		return nil, "", err
	}
	var out []rawLine
	pkg := ""
	for i, l := range strings.Split(string(data), "\n") {
		tl := strings.TrimSpace(l)
		if strings.HasPrefix(tl, "package ") {
			pkg = strings.TrimSpace(strings.TrimPrefix(tl, "package "))
		}
		if !strings.HasPrefix(tl, "//@") {
			continue
		}
		body := strings.TrimPrefix(tl, "//@")
		// strip trailing line comment " // ..."
		if k := strings.Index(body, " // "); k >= 0 {
			body = body[:k]
		}
		if strings.TrimSpace(body) == "" {
			continue
		}
		body = strings.ReplaceAll(body, "\t", "    ")
		ind := len(body) - len(strings.TrimLeft(body, " "))
		out = append(out, rawLine{indent: ind, text: strings.TrimSpace(body), line: i + 1})
	}
	return out, pkg, nil
}

func firstWord(s string) (string, string) {
	s = strings.TrimSpace(s)
	k := strings.IndexAny(s, " \t")
	if k < 0 {
		return s, ""
	}
	return s[:k], strings.TrimSpace(s[k+1:])
}

func parseParams(s string) ([]Param, error) {
	s = strings.TrimSpace(s)
	if s == "" {
		return nil, nil
	}
	var out []Param
	var pendingNames []string
	for _, part := range strings.Split(s, ",") {
		part = strings.TrimSpace(part)
		f := strings.Fields(part)
		if len(f) == 1 {
			pendingNames = append(pendingNames, f[0])
			continue
		}
		if len(f) < 2 {
			return nil, fmt.Errorf("bad parameter %q", part)
		}
		ty := strings.Join(f[1:], " ")
		for _, n := range pendingNames {
			out = append(out, Param{n, ty})
		}
		pendingNames = nil
		out = append(out, Param{f[0], ty})
	}
	if len(pendingNames) > 0 {
		return nil, fmt.Errorf("parameter without type in %q", s)
	}
	return out, nil
}

func (sw *SpecWorld) loadFile(file string) error {
	lines, pkg, err := readContractLines(file)
	if err != nil {
		return err
	}
	// group: directive line (indent <= 1) followed by deeper lines
	i := 0
	for i < len(lines) {
		d := lines[i]
		if d.indent > 1 {
			return fmt.Errorf("%s:%d: clause outside a directive: %s", file, d.line, d.text)
		}
		j := i + 1
		for j < len(lines) && lines[j].indent > 1 {
			j++
		}
		if err := sw.parseDirective(file, pkg, d, lines[i+1:j]); err != nil {
			return fmt.Errorf("%s:%d: %v", file, d.line, err)
		}
		i = j
	}
	return nil
}

func joinCont(first string, body []rawLine) string {
	parts := []string{first}
	for _, b := range body {
		parts = append(parts, b.text)
	}
	return strings.TrimSpace(strings.Join(parts, " "))
}

var specFuncRe = regexp.MustCompile(`^func\s+([A-Za-z_][A-Za-z0-9_]*)\s*\(([^)]*)\)\s*([A-Za-z0-9_\[\]\.\*]+)\s*(.*)$`)

func (sw *SpecWorld) parseDirective(file, pkg string, d rawLine, body []rawLine) error {
	kw, rest := firstWord(d.text)
	switch kw {
	case "spec":
		text := joinCont(rest, body)
		m := specFuncRe.FindStringSubmatch(text)
		if m == nil {
			return fmt.Errorf("bad spec func: %s", text)
		}
		ps, err := parseParams(m[2])
		if err != nil {
			return err
		}
		sf := &SpecFunc{Name: m[1], PkgName: pkg, Params: ps, Result: m[3], File: file, Line: d.line}
		tail := strings.TrimSpace(m[4])
		if strings.HasPrefix(tail, "rec ") || strings.HasPrefix(tail, "rec=") {
			sf.Rec = true
			tail = strings.TrimSpace(strings.TrimPrefix(tail, "rec"))
		}
		if strings.HasPrefix(tail, "=") {
			b := strings.TrimSpace(tail[1:])
			if strings.HasPrefix(b, "extern ") {
				sf.Extern = strings.TrimSpace(strings.TrimPrefix(b, "extern "))
			} else {
				e, err := parseSpec(b)
				if err != nil {
					return err
				}
				sf.Body = e
			}
		} else if tail != "" {
			return fmt.Errorf("bad spec func tail %q", tail)
		}
		if _, dup := sw.SpecFuncs[sf.Name]; dup {
			return fmt.Errorf("spec func %s declared twice", sf.Name)
		}
		sw.SpecFuncs[sf.Name] = sf
	case "ghost":
		text := joinCont(rest, body)
		f := strings.Fields(text)
		if len(f) == 3 && f[0] == "var" {
			sw.GhostVars[f[1]] = f[2]
			return nil
		}
		if len(f) != 2 {
			return fmt.Errorf("bad ghost decl: %s", text)
		}
		k := strings.LastIndex(f[0], ".")
		if k < 0 {
			return fmt.Errorf("bad ghost field %s", f[0])
		}
		recv := strings.Trim(f[0][:k], "(*)")
		sw.Ghosts = append(sw.Ghosts, &GhostField{Recv: recv, Name: f[0][k+1:], Type: f[1], PkgName: pkg})
	case "pred":
		text := joinCont(rest, body)
		k := strings.Index(text, "=")
		if k < 0 {
			return fmt.Errorf("bad pred: %s", text)
		}
		head := strings.TrimSpace(text[:k])
		e, err := parseSpec(text[k+1:])
		if err != nil {
			return err
		}
		// head: "(w *Writer).wf"
		m := regexp.MustCompile(`^\(\s*([a-z_][A-Za-z0-9_]*)\s+\*?([A-Za-z0-9_]+)\s*\)\.([A-Za-z0-9_]+)$`).FindStringSubmatch(head)
		if m == nil {
			return fmt.Errorf("bad pred head %q (want \"(w *T).name\")", head)
		}
		sw.Preds[pkg+"."+m[2]+"."+m[3]] = &Pred{Recv: m[2], RecvVar: m[1], Name: m[3], Body: e, PkgName: pkg}
	case "axiom":
		text := joinCont(rest, body)
		k := strings.Index(text, ":")
		if k < 0 {
			return fmt.Errorf("bad axiom: %s", text)
		}
		e, err := parseSpec(text[k+1:])
		if err != nil {
			return err
		}
		sw.Axioms = append(sw.Axioms, &Axiom{Name: strings.TrimSpace(text[:k]), Expr: e, PkgName: pkg, Text: text})
	case "lock", "event", "transfer", "lockinv", "protect", "allow", "handoff", "chanvalue", "count":
		sw.Decls = append(sw.Decls, &Decl{Kind: kw, Text: joinCont(rest, body), PkgName: pkg, File: file, Line: d.line})
	case "func", "interface", "lemma":
		c := &Contract{Kind: kw, PkgName: pkg, File: file, Line: d.line, Loops: map[int]*LoopSpec{}, Flags: map[string]string{}}
		key := rest
		if kw == "lemma" {
			m := regexp.MustCompile(`^([A-Za-z_][A-Za-z0-9_\-]*)\s*\(([^)]*)\)$`).FindStringSubmatch(rest)
			if m == nil {
				return fmt.Errorf("bad lemma head %q", rest)
			}
			key = m[1]
			ps, err := parseParams(m[2])
			if err != nil {
				return err
			}
			c.Params = ps
		}
		c.Key = key
		if err := parseClauses(c, file, body); err != nil {
			return err
		}
		// flags (abstract keys, mode, safety ...) belong to the properties of their block as well
		c.FlagScope = map[string][]string{}
		for k := range c.Flags {
			c.FlagScope[k] = c.Props
		}
		// a clause without a property scope of its own belongs to the properties of its block
		if len(c.Props) > 0 {
			scope := func(cls []*Clause) {
				for _, cl := range cls {
					cl.Scope = c.Props
				}
			}
			scope(c.Requires)
			scope(c.Ensures)
			scope(c.Extra)
			for _, l := range c.Loops {
				scope(l.Invs)
			}
			for _, l := range c.LabelLoops {
				scope(l.Invs)
			}
			for _, at := range c.Ats {
				scope(at.Clauses)
			}
		}
		full := ""
		switch kw {
		case "func":
			full = pkg + "." + key
		case "interface":
			full = "iface:" + key
		case "lemma":
			full = "lemma:" + key
		}
		if prev, dup := sw.ByKey[full]; dup {
			// several blocks for one function (one per concern) are merged
			if kw == "lemma" {
				return fmt.Errorf("lemma %s declared twice", full)
			}
			if prev.Mode != "" && c.Mode != "" && prev.Mode != c.Mode {
				return fmt.Errorf("contract %s: conflicting modes %s / %s", full, prev.Mode, c.Mode)
			}
			if prev.Mode == "" {
				prev.Mode = c.Mode
			}
			if prev.Safety == "" {
				prev.Safety = c.Safety
			}
			for _, p := range c.Props {
				if !prev.HasProp(p) {
					prev.Props = append(prev.Props, p)
				}
			}
			prev.Requires = append(prev.Requires, c.Requires...)
			prev.Ensures = append(prev.Ensures, c.Ensures...)
			prev.Modifies = append(prev.Modifies, c.Modifies...)
			prev.Uses = append(prev.Uses, c.Uses...)
			prev.Ats = append(prev.Ats, c.Ats...)
			prev.Extra = append(prev.Extra, c.Extra...)
			for k, v := range c.Flags {
				prev.Flags[k] = v
				if prev.FlagScope == nil {
					prev.FlagScope = map[string][]string{}
				}
				if old, had := prev.FlagScope[k]; had && len(old) == 0 {
					continue // already unconditional
				}
				if len(c.Props) == 0 {
					prev.FlagScope[k] = nil
				} else {
					prev.FlagScope[k] = append(append([]string{}, prev.FlagScope[k]...), c.Props...)
				}
			}
			for k, l := range c.Loops {
				if pl, ok := prev.Loops[k]; ok {
					pl.Invs = append(pl.Invs, l.Invs...)
					pl.Modifies = append(pl.Modifies, l.Modifies...)
					pl.Uses = append(pl.Uses, l.Uses...)
					if pl.Decreases == nil {
						pl.Decreases = l.Decreases
					}
				} else {
					prev.Loops[k] = l
				}
			}
			for k, l := range c.LabelLoops {
				if prev.LabelLoops == nil {
					prev.LabelLoops = map[string]*LoopSpec{}
				}
				if pl, ok := prev.LabelLoops[k]; ok {
					pl.Invs = append(pl.Invs, l.Invs...)
				} else {
					prev.LabelLoops[k] = l
				}
			}
			return nil
		}
		sw.ByKey[full] = c
		sw.Contracts = append(sw.Contracts, c)
	default:
		return fmt.Errorf("unknown directive %q", kw)
	}
	return nil
}

func parseClauses(c *Contract, file string, body []rawLine) error {
	// merge continuation lines
	type cl struct {
		indent int
		kw     string
		text   string
		line   int
	}
	var cls []cl
	for _, b := range body {
		kw, rest := firstWord(b.text)
		if clauseKeywords[kw] && (len(cls) == 0 || b.indent <= cls[len(cls)-1].indent+2) {
			cls = append(cls, cl{b.indent, kw, rest, b.line})
		} else {
			if len(cls) == 0 {
				return fmt.Errorf("line %d: continuation without clause: %s", b.line, b.text)
			}
			cls[len(cls)-1].text += " " + b.text
		}
	}
	var curLoop *LoopSpec
	var curAt *AtSpec
	subIndent := -1
	for _, x := range cls {
		if subIndent >= 0 && x.indent <= subIndent {
			curLoop, curAt, subIndent = nil, nil, -1
		}
		mk := func() (*Clause, error) {
			cla := &Clause{Kind: x.kw, Text: x.text, File: file, Line: x.line}
			t := x.text
			if m := labelRe.FindStringSubmatch(t); m != nil {
				cla.Label = m[1]
				t = t[len(m[0]):]
				cla.Text = t
			}
			switch x.kw {
			case "requires", "ensures", "invariant", "decreases", "assert", "assume", "guarantees", "assumes":
				e, err := parseSpec(t)
				if err != nil {
					return nil, fmt.Errorf("line %d: %v", x.line, err)
				}
				cla.Expr = e
			}
			return cla, nil
		}
		switch x.kw {
		case "props":
			c.Props = append(c.Props, strings.Fields(x.text)...)
		case "mode":
			c.Mode = x.text
		case "safety":
			c.Safety = x.text
		case "params":
			ps, err := parseParams(x.text)
			if err != nil {
				// names only: types come from the Go signature
				ps = nil
				for _, n := range strings.Split(x.text, ",") {
					ps = append(ps, Param{Name: strings.TrimSpace(n)})
				}
			}
			c.Params = ps
		case "loop":
			if strings.HasPrefix(strings.TrimSpace(x.text), "@") {
				// a goto loop, named by its label
				curLoop = &LoopSpec{Ordinal: -1}
				if c.LabelLoops == nil {
					c.LabelLoops = map[string]*LoopSpec{}
				}
				c.LabelLoops[strings.TrimPrefix(strings.TrimSpace(x.text), "@")] = curLoop
				curAt = nil
				subIndent = x.indent
				continue
			}
			n, err := strconv.Atoi(strings.TrimSpace(x.text))
			if err != nil {
				return fmt.Errorf("line %d: bad loop ordinal %q", x.line, x.text)
			}
			curLoop = &LoopSpec{Ordinal: n}
			c.Loops[n] = curLoop
			curAt = nil
			subIndent = x.indent
		case "at":
			curAt = &AtSpec{Where: x.text}
			c.Ats = append(c.Ats, curAt)
			curLoop = nil
			subIndent = x.indent
		case "requires":
			cla, err := mk()
			if err != nil {
				return err
			}
			c.Requires = append(c.Requires, cla)
		case "ensures", "guarantees", "assumes":
			cla, err := mk()
			if err != nil {
				return err
			}
			cla.Local = x.kw == "guarantees"
			cla.Assumed = x.kw == "assumes"
			c.Ensures = append(c.Ensures, cla)
		case "modifies":
			cla, _ := mk()
			if curLoop != nil {
				curLoop.Modifies = append(curLoop.Modifies, cla)
			} else {
				c.Modifies = append(c.Modifies, cla)
			}
		case "invariant":
			if curLoop == nil {
				return fmt.Errorf("line %d: invariant outside loop", x.line)
			}
			cla, err := mk()
			if err != nil {
				return err
			}
			curLoop.Invs = append(curLoop.Invs, cla)
		case "decreases":
			if curLoop == nil {
				return fmt.Errorf("line %d: decreases outside loop", x.line)
			}
			cla, err := mk()
			if err != nil {
				return err
			}
			curLoop.Decreases = cla
		case "bounded":
			n, err := strconv.Atoi(strings.TrimSpace(x.text))
			if err != nil {
				return fmt.Errorf("line %d: bad bound", x.line)
			}
			if curLoop != nil {
				curLoop.Bounded = n
			} else {
				c.Flags["bounded"] = x.text
			}
		case "use", "witness":
			cla, _ := mk()
			if curLoop != nil {
				curLoop.Uses = append(curLoop.Uses, cla)
			} else if curAt != nil {
				curAt.Clauses = append(curAt.Clauses, cla)
			} else {
				c.Uses = append(c.Uses, cla)
			}
		case "assert", "assume", "ghost":
			cla, err := mk()
			if err != nil {
				return err
			}
			if curAt != nil {
				curAt.Clauses = append(curAt.Clauses, cla)
			} else {
				c.Extra = append(c.Extra, cla)
			}
		case "trusted", "pure", "inline", "frame", "panics", "reveal", "abstract", "havoc", "returns", "note", "effects", "splitpaths", "deepinst", "assumepre", "sortedinput", "unwinds":
			if x.text == "" {
				c.Flags[x.kw] = "yes"
			} else {
				c.Flags[x.kw] = x.text
			}
		default:
			cla, _ := mk()
			c.Extra = append(c.Extra, cla)
		}
	}
	return nil
}

func newSpecWorld() *SpecWorld {
	return &SpecWorld{ByKey: map[string]*Contract{}, SpecFuncs: map[string]*SpecFunc{}, Preds: map[string]*Pred{},
		GhostVars: map[string]string{}}
}
