package main

// Arithmetic, comparison and conversion of scalar leaves in both modes.

import (
	"fmt"
	"go/constant"
	"go/token"
	"go/types"
	"math/big"
)

// constTerm builds a constant of Go type t from a go/constant value.
func (c *FCtx) constTerm(v constant.Value, t types.Type) (Value, bool) {
	switch v.Kind() {
	case constant.Bool:
		return BoolC(constant.BoolVal(v)), true
	case constant.Int:
		bi, ok := new(big.Int).SetString(v.ExactString(), 10)
		if !ok {
			return nil, false
		}
		if _, _, isInt := intInfo(t); !isInt {
			// e.g. untyped const used as float or interface
			return IntBig(bi), true
		}
		return c.intConst(bi, t), true
	case constant.String:
		s := constant.StringVal(v)
		return c.stringConst(s), true
	}
	return nil, false
}

func (c *FCtx) intConst(v *big.Int, t types.Type) *Term {
	if c.Mode == ModeBV {
		w, _, ok := intInfo(t)
		if !ok {
			w = 64
		}
		return BVC(v, w)
	}
	return IntBig(v)
}

var strConstIDs = map[string]int{}

func (c *FCtx) stringConst(s string) Value {
	id, ok := strConstIDs[s]
	if !ok {
		id = len(strConstIDs) + 1
		strConstIDs[s] = id
	}
	n := c.idxC(int64(len(s)))
	base := IntC(int64(-1000 - id)) // negative: never equal to an object ref
	if len(s) == 0 {
		base = IntC(0)
	}
	return &SliceV{Base: base, Off: c.idxC(0), Len: n, Cap: n, Elem: types.Typ[types.Uint8], Str: true}
}

// coerce adapts an untyped integer constant to the sort of the other operand.
func coerce(a *Term, s Sort) *Term {
	if a.Sort == s {
		return a
	}
	if a.Op == "int" && s.IsBV() {
		return BVC(a.Val, s.BVWidth())
	}
	if a.Op == "bvc" && s == SInt {
		return IntBig(a.Val)
	}
	if a.Op == "bvc" && s.IsBV() {
		return BVC(a.Val, s.BVWidth())
	}
	if a.Op == "ite" && a.Sort != SBool {
		x, y := coerce(a.Args[1], s), coerce(a.Args[2], s)
		if x.Sort == s && y.Sort == s {
			return Ite(a.Args[0], x, y)
		}
	}
	return a
}

func coerce2(a, b *Term) (*Term, *Term) {
	if a.Sort == b.Sort {
		return a, b
	}
	if a.Sort.IsBV() && b.Op == "int" {
		return a, coerce(b, a.Sort)
	}
	if b.Sort.IsBV() && a.Op == "int" {
		return coerce(a, b.Sort), b
	}
	if a.IsConst() {
		return coerce(a, b.Sort), b
	}
	if b.IsConst() {
		return a, coerce(b, a.Sort)
	}
	if a.Sort == SInt && b.Sort.IsBV() {
		return coerce(a, b.Sort), b
	}
	if b.Sort == SInt && a.Sort.IsBV() {
		return a, coerce(b, a.Sort)
	}
	return a, b
}

// wrap applies the unsigned wrap-around of type t (int mode) for widths < 64.
func (c *FCtx) wrap(x *Term, t types.Type) *Term {
	if c.Mode == ModeBV || t == nil {
		return x
	}
	w, signed, ok := intInfo(t)
	if !ok || signed || w >= 64 {
		return x
	}
	if x.Op == "int" {
		return IntBig(new(big.Int).Mod(x.Val, pow2(w)))
	}
	return IModE(x, IntBig(pow2(w)))
}

func isPow2Minus1(v *big.Int) (int, bool) {
	if v.Sign() <= 0 {
		return 0, false
	}
	x := new(big.Int).Add(v, big.NewInt(1))
	if x.BitLen() == 0 {
		return 0, false
	}
	k := x.BitLen() - 1
	if new(big.Int).Lsh(big.NewInt(1), uint(k)).Cmp(x) == 0 {
		return k, true
	}
	return 0, false
}

// arith computes a op b for operands of Go type t (result type t; for shifts t is the left operand type).
// spec=true means mathematical semantics in int mode (no wrap).
func (c *FCtx) arith(op token.Token, a, b *Term, t types.Type, spec bool) *Term {
	if op != token.SHL && op != token.SHR {
		a, b = coerce2(a, b)
	}
	if c.Mode == ModeBV || a.Sort.IsBV() {
		return c.arithBV(op, a, b, t)
	}
	w, signed, _ := intInfo(t)
	if t == nil {
		w, signed = 64, true
	}
	wr := func(x *Term) *Term {
		if spec {
			return x
		}
		return c.wrap(x, t)
	}
	switch op {
	case token.ADD:
		return wr(IAdd(a, b))
	case token.SUB:
		return wr(ISub(a, b))
	case token.MUL:
		return wr(IMul(a, b))
	case token.QUO:
		if !signed || (a.Op == "int" && a.Val.Sign() >= 0) {
			return IDivE(a, b)
		}
		return Ite(IGe(a, IntC(0)), IDivE(a, b), INeg(IDivE(INeg(a), b)))
	case token.REM:
		if !signed || (a.Op == "int" && a.Val.Sign() >= 0) {
			return IModE(a, b)
		}
		q := Ite(IGe(a, IntC(0)), IDivE(a, b), INeg(IDivE(INeg(a), b)))
		return ISub(a, IMul(b, q))
	case token.SHL:
		if b.Op == "int" && b.Val.IsInt64() && b.Val.Int64() < 256 {
			r := IMul(a, IntBig(pow2(int(b.Val.Int64()))))
			if spec {
				return r
			}
			if !signed {
				return IModE(r, IntBig(pow2(w)))
			}
			return r
		}
		return App("shl$", SInt, a, b)
	case token.SHR:
		if b.Op == "int" && b.Val.IsInt64() && b.Val.Int64() < 256 {
			return IDivE(a, IntBig(pow2(int(b.Val.Int64())))) // floor; correct for a >= 0 and arithmetic shift of negatives
		}
		return App("shr$", SInt, a, b)
	case token.AND:
		if b.Op == "int" {
			if k, ok := isPow2Minus1(b.Val); ok {
				return IModE(a, IntBig(pow2(k)))
			}
			if b.Val.Sign() == 0 {
				return IntC(0)
			}
		}
		if a.Op == "int" {
			if k, ok := isPow2Minus1(a.Val); ok {
				return IModE(b, IntBig(pow2(k)))
			}
		}
		return App("and$", SInt, a, b)
	case token.OR:
		if b.Op == "int" && b.Val.Sign() == 0 {
			return a
		}
		if a.Op == "int" && a.Val.Sign() == 0 {
			return b
		}
		return App("or$", SInt, a, b)
	case token.XOR:
		return App("xor$", SInt, a, b)
	case token.AND_NOT:
		return App("andnot$", SInt, a, b)
	}
	panic(fmt.Sprintf("arith: unsupported op %s", op))
}

func (c *FCtx) arithBV(op token.Token, a, b *Term, t types.Type) *Term {
	_, signed, _ := intInfo(t)
	if t == nil {
		signed = true
	}
	if a.Op == "int" {
		w, _, ok := intInfo(t)
		if !ok || t == nil {
			w = 64
		}
		a = BVC(a.Val, w)
	}
	if !a.Sort.IsBV() || (!b.Sort.IsBV() && !b.IsConst()) {
		panic(fmt.Sprintf("arithBV on non-bv operands %s:%s %s:%s", a, a.Sort, b, b.Sort))
	}
	if op == token.SHL || op == token.SHR {
		// bring the count to the width of a
		wa := a.Sort.BVWidth()
		if b.Op == "int" {
			b = BVC(b.Val, wa)
		}
		wb := b.Sort.BVWidth()
		var cnt *Term
		switch {
		case wb == wa:
			cnt = b
		case wb < wa:
			cnt = bvZext(wa-wb, b)
		default:
			// saturate: if any high bit set, count >= width
			lo := bvExtract(wa-1, 0, b)
			hi := bvExtract(wb-1, wa, b)
			cnt = Ite(Eq(hi, BVC(big.NewInt(0), wb-wa)), lo, BVC(big.NewInt(int64(wa)), wa))
		}
		if op == token.SHL {
			return bvBin("bvshl", a, cnt)
		}
		if signed {
			return bvBin("bvashr", a, cnt)
		}
		return bvBin("bvlshr", a, cnt)
	}
	if b.Op == "int" {
		b = BVC(b.Val, a.Sort.BVWidth())
	}
	w := a.Sort.BVWidth()
	switch op {
	case token.ADD:
		return bvBin("bvadd", a, b)
	case token.SUB:
		return bvBin("bvsub", a, b)
	case token.MUL:
		if !a.IsConst() && !b.IsConst() && !c.reveal {
			// two symbolic factors: opaque (only congruence is used)
			return App(fmt.Sprintf("mul$%d", w), a.Sort, a, b)
		}
		return bvBin("bvmul", a, b)
	case token.QUO:
		if !b.IsConst() && !c.reveal {
			return App(fmt.Sprintf("div$%d%v", w, signed), a.Sort, a, b)
		}
		if signed {
			return bvBin("bvsdiv", a, b)
		}
		return bvBin("bvudiv", a, b)
	case token.REM:
		if !b.IsConst() && !c.reveal {
			// symbolic modulus: opaque, with the one fact the proofs need (result < modulus)
			r := App(fmt.Sprintf("rem$%d%v", w, signed), a.Sort, a, b)
			if !signed {
				c.sideFacts = append(c.sideFacts, Implies(Neq(b, BVC(bigZero, w)), bvCmp("bvult", r, b)))
			}
			return r
		}
		if signed {
			return bvBin("bvsrem", a, b)
		}
		return bvBin("bvurem", a, b)
	case token.AND:
		return bvBin("bvand", a, b)
	case token.OR:
		return bvBin("bvor", a, b)
	case token.XOR:
		return bvBin("bvxor", a, b)
	case token.AND_NOT:
		return bvBin("bvand", a, Op("bvnot", b.Sort, b))
	}
	panic(fmt.Sprintf("arithBV: unsupported op %s", op))
}

// compare computes a op b for operands of Go type t.
func (c *FCtx) compare(op token.Token, a, b *Term, t types.Type) *Term {
	a, b = coerce2(a, b)
	switch op {
	case token.EQL:
		return Eq(a, b)
	case token.NEQ:
		return Neq(a, b)
	}
	if a.Sort.IsBV() {
		_, signed, _ := intInfo(t)
		if t == nil {
			signed = true
		}
		var name string
		switch op {
		case token.LSS:
			name = "lt"
		case token.LEQ:
			name = "le"
		case token.GTR:
			name = "gt"
		case token.GEQ:
			name = "ge"
		}
		if signed {
			return bvCmp("bvs"+name, a, b)
		}
		return bvCmp("bvu"+name, a, b)
	}
	switch op {
	case token.LSS:
		return ILt(a, b)
	case token.LEQ:
		return ILe(a, b)
	case token.GTR:
		return IGt(a, b)
	case token.GEQ:
		return IGe(a, b)
	}
	panic("compare: bad op")
}

// convert converts integer leaf x of type from to type to.
func (c *FCtx) convert(x *Term, from, to types.Type) *Term {
	wf, sf, okf := intInfo(from)
	wt, st, okt := intInfo(to)
	if !okf || !okt {
		return x
	}
	if c.Mode == ModeBV && x.Sort.IsBV() {
		wf = x.Sort.BVWidth()
		switch {
		case wt == wf:
			return x
		case wt < wf:
			return bvExtract(wt-1, 0, x)
		default:
			if sf {
				return bvSext(wt-wf, x)
			}
			return bvZext(wt-wf, x)
		}
	}
	if c.Mode == ModeBV && x.Op == "int" {
		return BVC(x.Val, wt)
	}
	// int mode
	if st {
		// to signed: value preserved when it fits; larger unsigned sources assumed to fit (documented)
		if !sf && wf >= wt {
			return x
		}
		if sf && wf > wt {
			return x
		}
		return x
	}
	// to unsigned
	if !sf && wf <= wt {
		return x
	}
	if wt >= 64 {
		// signed -> uint64: exact only for non-negative values; negative sources are treated mathematically
		return x
	}
	if x.Op == "int" {
		return IntBig(new(big.Int).Mod(x.Val, pow2(wt)))
	}
	return IModE(x, IntBig(pow2(wt)))
}

// toIdx converts an integer leaf of Go type t into the index sort.
func (c *FCtx) toIdx(x *Term, t types.Type) *Term {
	if c.Mode == ModeBV {
		if x.Op == "int" {
			return BVC(x.Val, 64)
		}
		return c.convert(x, t, types.Typ[types.Int])
	}
	return x
}

func (c *FCtx) neg(x *Term, t types.Type) *Term {
	if x.Sort.IsBV() {
		return Op("bvneg", x.Sort, x)
	}
	return c.wrap(INeg(x), t)
}

func (c *FCtx) bitnot(x *Term, t types.Type) *Term {
	if x.Sort.IsBV() {
		return Op("bvnot", x.Sort, x)
	}
	w, signed, _ := intInfo(t)
	if signed {
		return ISub(INeg(x), IntC(1))
	}
	return ISub(IntBig(new(big.Int).Sub(pow2(w), big.NewInt(1))), x)
}
