package main

// Expression evaluation.

import (
	"fmt"
	"go/ast"
	"go/constant"
	"go/token"
	"go/types"
	"math/big"
	"strings"
)

var (
	bigZero = big.NewInt(0)
	bigOne  = big.NewInt(1)
)

func (e *Env) evalMulti(x ast.Expr, st *State, n int) []Value {
	c := e.C
	x = stripParens(x)
	switch y := x.(type) {
	case *ast.CallExpr:
		v := e.eval(y, st)
		if t, ok := v.(*TupleV); ok {
			return t.Vs
		}
		return []Value{v}
	case *ast.TypeAssertExpr:
		v := e.eval(y.X, st)
		ok := c.freshVar("taok", SBool)
		res := e.typeAssertValue(v, y, st, ok)
		return []Value{res, ok}
	case *ast.IndexExpr:
		// v, ok := m[k]
		e.eval(y.X, st)
		e.eval(y.Index, st)
		t := e.Info.TypeOf(y)
		if tup, isTup := t.(*types.Tuple); isTup {
			t = tup.At(0).Type()
		}
		v := c.mapRead(e, st, y, t)
		return []Value{v, c.freshVar("mapok", SBool)}
	case *ast.UnaryExpr:
		if y.Op == token.ARROW {
			rv := c.protoChanRecvValue(e, st, y.X, y.Pos())
			c.protoChanOp(e, st, y.X, false, y.Pos())
			return []Value{rv, c.freshVar("chok", SBool)}
		}
	}
	v := e.eval(x, st)
	if t, ok := v.(*TupleV); ok {
		return t.Vs
	}
	out := []Value{v}
	for len(out) < n {
		out = append(out, c.freshVar("multi", SInt))
	}
	return out
}

func (e *Env) typeAssertValue(v Value, y *ast.TypeAssertExpr, st *State, ok *Term) Value {
	c := e.C
	tt := e.Info.TypeOf(y.Type)
	switch tt.Underlying().(type) {
	case *types.Pointer, *types.Interface:
		if t, isT := v.(*Term); isT {
			// on success the dynamic value is the same ref; on failure the zero value
			if ok != nil {
				return Ite(ok, t, IntC(0))
			}
			return t
		}
	}
	nv, facts := c.freshValue(tt, "ta")
	for _, f := range facts {
		st.assume(f)
	}
	return nv
}

func (e *Env) eval(x ast.Expr, st *State) Value {
	c := e.C
	if st.dead {
		return e.deadValue(x)
	}
	// constants
	if tv, ok := e.Info.Types[x]; ok && tv.Value != nil {
		if v, ok := c.constTerm(tv.Value, tv.Type); ok {
			return v
		}
	}
	switch y := x.(type) {
	case *ast.ParenExpr:
		return e.eval(y.X, st)
	case *ast.Ident:
		return e.evalIdent(y, st)
	case *ast.BasicLit:
		tv := e.Info.Types[x]
		if tv.Value != nil {
			if v, ok := c.constTerm(tv.Value, tv.Type); ok {
				return v
			}
		}
		return e.opaque(x, st)
	case *ast.SelectorExpr:
		return e.evalSelector(y, st)
	case *ast.IndexExpr:
		return e.evalIndex(y, st)
	case *ast.SliceExpr:
		return e.evalSlice(y, st)
	case *ast.StarExpr:
		p := e.eval(y.X, st)
		pt, ok := p.(*Term)
		if !ok {
			return e.opaque(x, st)
		}
		c.safety(st, "nil", y.Pos(), Neq(pt, IntC(0)), "nil dereference")
		pty, _ := e.Info.TypeOf(y.X).Underlying().(*types.Pointer)
		if pty == nil {
			return e.opaque(x, st)
		}
		return c.loadCell(st, pt, pty.Elem())
	case *ast.UnaryExpr:
		return e.evalUnary(y, st)
	case *ast.BinaryExpr:
		return e.evalBinary(y, st)
	case *ast.CallExpr:
		return e.evalCall(y, st)
	case *ast.CompositeLit:
		return e.evalComposite(y, st, false)
	case *ast.FuncLit:
		return &FuncV{Lit: y}
	case *ast.TypeAssertExpr:
		v := e.eval(y.X, st)
		return e.typeAssertValue(v, y, st, nil)
	case *ast.KeyValueExpr:
		return e.eval(y.Value, st)
	}
	return e.opaque(x, st)
}

func (e *Env) deadValue(x ast.Expr) Value {
	t := e.Info.TypeOf(x)
	if t == nil {
		return IntC(0)
	}
	if tup, ok := t.(*types.Tuple); ok {
		tv := &TupleV{}
		for i := 0; i < tup.Len(); i++ {
			tv.Vs = append(tv.Vs, e.C.zeroValue(tup.At(i).Type()))
		}
		return tv
	}
	return e.C.zeroValue(t)
}

// opaque returns an unconstrained value of the expression's type.
func (e *Env) opaque(x ast.Expr, st *State) Value {
	c := e.C
	t := e.Info.TypeOf(x)
	if t == nil {
		return c.freshVar("opq", SInt)
	}
	if tup, ok := t.(*types.Tuple); ok {
		tv := &TupleV{}
		for i := 0; i < tup.Len(); i++ {
			v, facts := c.freshValue(tup.At(i).Type(), "opq")
			for _, f := range facts {
				st.assume(f)
			}
			c.allocated(st, v, tup.At(i).Type())
			tv.Vs = append(tv.Vs, v)
		}
		return tv
	}
	v, facts := c.freshValue(t, "opq")
	for _, f := range facts {
		st.assume(f)
	}
	c.allocated(st, v, t)
	return v
}

// allocated: a reference handed out by an unmodelled call points to something that exists now (the heap is closed
// under allocation: it is below the current allocation counter).
func (c *FCtx) allocated(st *State, v Value, t types.Type) {
	al := c.heapGet(st, "$alloc", SInt)
	switch x := v.(type) {
	case *SliceV:
		st.assume(ILt(x.Base, al))
	case *Term:
		if t == nil || x.Sort != SInt {
			return
		}
		switch t.Underlying().(type) {
		case *types.Pointer, *types.Map, *types.Chan, *types.Interface, *types.Signature:
			st.assume(ILt(x, al))
		}
	}
}

func (e *Env) evalIdent(y *ast.Ident, st *State) Value {
	c := e.C
	if y.Name == "_" {
		return IntC(0)
	}
	obj := e.Info.Uses[y]
	if obj == nil {
		obj = e.Info.Defs[y]
	}
	switch o := obj.(type) {
	case *types.Nil:
		t := e.Info.TypeOf(y)
		if t != nil {
			if _, isB := t.(*types.Basic); !isB {
				return c.zeroValue(t)
			}
		}
		return IntC(0)
	case *types.Const:
		if v, ok := c.constTerm(o.Val(), o.Type()); ok {
			return v
		}
	case *types.Var:
		if o.Pkg() != nil && o.Parent() == o.Pkg().Scope() {
			return c.loadGlobal(st, o)
		}
		if v, ok := e.getVar(st, o); ok {
			return v
		}
		// captured variable of an enclosing function not under analysis, or a result var not yet assigned
		v, facts := c.freshValue(o.Type(), "v_"+o.Name())
		for _, f := range facts {
			st.assume(f)
		}
		st.vars[o] = v
		return v
	case *types.Func:
		return App("fn$"+o.FullName(), SInt)
	}
	return e.opaque(y, st)
}

func (c *FCtx) globalKey(v *types.Var) string {
	return "V$" + v.Pkg().Name() + "." + v.Name()
}

func (c *FCtx) loadGlobal(st *State, v *types.Var) Value {
	base := c.globalKey(v)
	var facts []*Term
	var slices []*SliceV
	val := c.build(v.Type(), base, func(path string, lt types.Type, s Sort) *Term {
		x := Select(c.heapGet(st, path, SArr(SInt, s)), IntC(0))
		if lt != nil {
			if f := c.rangeFact(lt, x); !f.IsTrue() {
				facts = append(facts, f)
			}
			if s == SInt && !isIntType(lt) {
				// references held by package-level variables were allocated before the function was entered
				facts = append(facts, ILt(x, Var("$alloc@pre", SInt)), IGe(x, IntC(0)))
			}
		}
		return x
	}, nil)
	c.collectSlices(val, &slices)
	for _, sl := range slices {
		facts = append(facts, c.sliceWF(sl)...)
	}
	for _, f := range facts {
		st.assume(f)
	}
	c.globalFacts(st, v, val)
	if t, ok := val.(*Term); ok && t.Sort == SInt && c.W.globalInitNonNil(v) {
		st.assume(Neq(t, IntC(0)))
	}
	return val
}

func (c *FCtx) storeGlobal(st *State, v *types.Var, val Value) {
	base := c.globalKey(v)
	if _, isArr := v.Type().Underlying().(*types.Array); isArr {
		return
	}
	c.walkLeaves(v.Type(), val, base, func(path string, lt types.Type, leaf *Term) {
		arr := c.heapGet(st, path, SArr(SInt, leaf.Sort))
		c.heapSet(st, path, Store(arr, IntC(0), leaf))
	})
}

func (e *Env) evalSelector(y *ast.SelectorExpr, st *State) Value {
	c := e.C
	sel := e.Info.Selections[y]
	if sel == nil {
		// qualified identifier pkg.Name
		obj := e.Info.Uses[y.Sel]
		switch o := obj.(type) {
		case *types.Const:
			if v, ok := c.constTerm(o.Val(), o.Type()); ok {
				return v
			}
		case *types.Var:
			return c.loadGlobal(st, o)
		case *types.Func:
			return App("fn$"+o.FullName(), SInt)
		}
		return e.opaque(y, st)
	}
	switch sel.Kind() {
	case types.FieldVal:
		if ref, owner, fld, ok := e.fieldAddr(y, st); ok {
			c.protoFieldRead(e, st, owner, fld, y.Pos())
			return c.loadField(st, ref, owner, fld)
		}
		// value-typed struct
		base := e.eval(y.X, st)
		cur := base
		curT := sel.Recv()
		for _, fi := range sel.Index() {
			s := structOf(curT)
			if s == nil {
				return e.opaque(y, st)
			}
			f := s.Field(fi)
			switch b := cur.(type) {
			case *StructV:
				cur = b.F[f.Name()]
			case *Term:
				if _, isPtr := curT.Underlying().(*types.Pointer); isPtr {
					cur = c.loadField(st, b, curT.Underlying().(*types.Pointer).Elem(), f)
				} else {
					return e.opaque(y, st)
				}
			default:
				return e.opaque(y, st)
			}
			curT = f.Type()
		}
		if cur == nil {
			return e.opaque(y, st)
		}
		return cur
	case types.MethodVal:
		// method value (not called): opaque function value
		e.eval(y.X, st)
		return c.freshVar("mval", SInt)
	}
	return e.opaque(y, st)
}

// asSlice views a value as a slice-like (slice, string, array, *array).
func (e *Env) asSlice(v Value, t types.Type, st *State) (*SliceV, bool) {
	c := e.C
	switch x := v.(type) {
	case *SliceV:
		return x, true
	case *Term:
		if p, ok := t.Underlying().(*types.Pointer); ok {
			if a, ok := p.Elem().Underlying().(*types.Array); ok {
				return &SliceV{Base: x, Off: c.idxC(0), Len: c.idxC(a.Len()), Cap: c.idxC(a.Len()), Elem: a.Elem()}, true
			}
		}
	}
	return nil, false
}

func (e *Env) evalIndex(y *ast.IndexExpr, st *State) Value {
	c := e.C
	bt := e.Info.TypeOf(y.X)
	if c.AbsKeys && bt != nil && (isInternalKeyType(bt) || isByteSlice(bt)) {
		panic(outOfReach("indexing an abstracted key at " + c.W.relPos(y.Pos())))
	}
	if bt == nil {
		return e.opaque(y, st)
	}
	// generic instantiation f[T] is not in the subset
	if _, isSig := bt.Underlying().(*types.Signature); isSig {
		return e.opaque(y, st)
	}
	if _, isMap := bt.Underlying().(*types.Map); isMap {
		e.eval(y.X, st)
		e.eval(y.Index, st)
		return c.mapRead(e, st, y, e.Info.TypeOf(y))
	}
	base := e.eval(y.X, st)
	idx := e.eval(y.Index, st)
	sl, ok := e.asSlice(base, bt, st)
	it, ok2 := idx.(*Term)
	if !ok || !ok2 {
		return e.opaque(y, st)
	}
	it = c.toIdx(it, e.Info.TypeOf(y.Index))
	c.safety(st, "bounds", y.Pos(), And(c.ile(c.idxC(0), it), c.ilt(it, sl.Len)), "index in range")
	return c.loadElem(st, sl, it)
}

func (e *Env) evalSlice(y *ast.SliceExpr, st *State) Value {
	c := e.C
	bt := e.Info.TypeOf(y.X)
	if c.AbsKeys && bt != nil && (isInternalKeyType(bt) || isByteSlice(bt)) {
		// k[:0] (reuse of a buffer) keeps nothing of the key
		if y.High != nil {
			if tv, ok := e.Info.Types[y.High]; ok && tv.Value != nil && y.Low == nil {
				if n, ok := constInt(tv); ok && n == 0 {
					e.eval(y.X, st)
					return &KeyV{Rank: c.freshVar("emptykey", SKey), Nil: TFalse, Len: IntC(0)}
				}
			}
		}
		panic(outOfReach("slicing an abstracted key at " + c.W.relPos(y.Pos())))
	}
	base := e.eval(y.X, st)
	sl, ok := e.asSlice(base, bt, st)
	if !ok {
		return e.opaque(y, st)
	}
	lo := c.idxC(0)
	hi := sl.Len
	if y.Low != nil {
		v, ok := e.eval(y.Low, st).(*Term)
		if !ok {
			return e.opaque(y, st)
		}
		lo = c.toIdx(v, e.Info.TypeOf(y.Low))
	}
	if y.High != nil {
		v, ok := e.eval(y.High, st).(*Term)
		if !ok {
			return e.opaque(y, st)
		}
		hi = c.toIdx(v, e.Info.TypeOf(y.High))
	}
	limit := sl.Cap
	if sl.Str {
		limit = sl.Len
	}
	if _, isArr := bt.Underlying().(*types.Array); isArr {
		limit = sl.Len
	}
	mx := limit
	if y.Max != nil {
		v, ok := e.eval(y.Max, st).(*Term)
		if !ok {
			return e.opaque(y, st)
		}
		mx = c.toIdx(v, e.Info.TypeOf(y.Max))
		c.safety(st, "bounds", y.Pos(), And(c.ile(c.idxC(0), lo), c.ile(lo, hi), c.ile(hi, mx), c.ile(mx, limit)), "slice bounds")
	} else {
		c.safety(st, "bounds", y.Pos(), And(c.ile(c.idxC(0), lo), c.ile(lo, hi), c.ile(hi, limit)), "slice bounds")
	}
	return c.sliceOf(sl, lo, hi, mx)
}

func (c *FCtx) sliceOf(sl *SliceV, lo, hi, mx *Term) *SliceV {
	n := &SliceV{Base: sl.Base, Off: c.iadd(sl.Off, lo), Len: c.isub(hi, lo), Elem: sl.Elem, Str: sl.Str, St: sl.St}
	if mx != nil {
		n.Cap = c.isub(mx, lo)
	} else {
		n.Cap = c.isub(sl.Cap, lo)
	}
	if sl.Str {
		n.Cap = n.Len
	}
	return n
}

func (e *Env) evalUnary(y *ast.UnaryExpr, st *State) Value {
	c := e.C
	switch y.Op {
	case token.NOT:
		return Not(e.evalCond(y.X, st))
	case token.SUB:
		v, ok := e.eval(y.X, st).(*Term)
		if !ok || !isIntType(e.Info.TypeOf(y.X)) {
			return e.opaque(y, st)
		}
		return c.neg(v, e.Info.TypeOf(y))
	case token.ADD:
		return e.eval(y.X, st)
	case token.XOR:
		v, ok := e.eval(y.X, st).(*Term)
		if !ok {
			return e.opaque(y, st)
		}
		return c.bitnot(v, e.Info.TypeOf(y))
	case token.AND:
		inner := stripParens(y.X)
		switch z := inner.(type) {
		case *ast.CompositeLit:
			return e.evalComposite(z, st, true)
		case *ast.Ident:
			obj := e.Info.Uses[z]
			if obj != nil && e.isBoxed(obj) {
				if _, ok := e.getVar(st, obj); ok {
					return st.vars[obj]
				}
			}
		case *ast.SelectorExpr:
			// &x.f : address of a field — a sub-object reference
			if ref, owner, fld, ok := e.fieldAddr(z, st); ok {
				if _, isStruct := fld.Type().Underlying().(*types.Struct); isStruct {
					return c.embRef(owner, fld, ref)
				}
				return App("addr$"+structKey(owner)+"."+fld.Name(), SInt, ref)
			}
		case *ast.IndexExpr:
			if r := e.elemAddr(z, st); r != nil {
				return r
			}
			c.noteAssumed(fmt.Sprintf("%s: &%s is a fresh address (element type not a flat struct): writes through it are not seen in the element", c.Name, exprString(z)))
		}
		r := c.freshVar("addr", SInt)
		st.assume(IGt(r, IntC(0)))
		return r
	case token.ARROW:
		rv := c.protoChanRecvValue(e, st, y.X, y.Pos())
		c.protoChanOp(e, st, y.X, false, y.Pos())
		return rv
	}
	return e.opaque(y, st)
}

// elemAddr models &s[i] for a slice (or array) of structs whose fields are all leaves or slices: the pointer is the
// term eptr$T(base, absolute index), and loadField / storeField through such a pointer read and write the element
// memory of T, so a write through the pointer is a write of the element. Other element types keep the older model
// (a fresh address not tied to the element: reads through it are unconstrained, writes through it do not reach the
// element — listed as an assumption in the evidence).
func (e *Env) elemAddr(z *ast.IndexExpr, st *State) *Term {
	c := e.C
	bt := e.Info.TypeOf(z.X)
	base := e.eval(z.X, st)
	idx := e.eval(z.Index, st)
	if bt == nil || c.AbsKeys && (isInternalKeyType(bt) || isByteSlice(bt)) {
		return nil
	}
	switch bt.Underlying().(type) {
	case *types.Slice, *types.Array:
	default:
		return nil
	}
	sl, ok := e.asSlice(base, bt, st)
	it, ok2 := idx.(*Term)
	if !ok || !ok2 || !flatStruct(sl.Elem) {
		return nil
	}
	it = c.toIdx(it, e.Info.TypeOf(z.Index))
	c.safety(st, "bounds", z.Pos(), And(c.ile(c.idxC(0), it), c.ilt(it, sl.Len)), "index in range")
	r := App("eptr$"+structKey(sl.Elem), SInt, sl.Base, c.iadd(sl.Off, it))
	st.assume(IGt(r, IntC(0)))
	return r
}

// flatStruct: a named struct type none of whose fields is itself a struct or an array.
func flatStruct(t types.Type) bool {
	if namedOf(t) == nil {
		return false
	}
	s, ok := t.Underlying().(*types.Struct)
	if !ok {
		return false
	}
	for i := 0; i < s.NumFields(); i++ {
		switch s.Field(i).Type().Underlying().(type) {
		case *types.Struct, *types.Array:
			return false
		}
	}
	return true
}

func isElemPtr(ref *Term) bool {
	return ref != nil && ref.Op == "app" && strings.HasPrefix(ref.Name, "eptr$") && len(ref.Args) == 2
}

func exprHasCall(x ast.Expr) bool {
	has := false
	ast.Inspect(x, func(n ast.Node) bool {
		switch n.(type) {
		case *ast.CallExpr, *ast.IndexExpr, *ast.SliceExpr, *ast.StarExpr, *ast.SelectorExpr:
			has = true
		case *ast.UnaryExpr:
			if n.(*ast.UnaryExpr).Op == token.ARROW {
				has = true
			}
		}
		return !has
	})
	return has
}

func (e *Env) evalBinary(y *ast.BinaryExpr, st *State) Value {
	c := e.C
	switch y.Op {
	case token.LAND, token.LOR:
		a := e.evalCond(y.X, st)
		if (y.Op == token.LAND && a.IsFalse()) || (y.Op == token.LOR && a.IsTrue()) {
			return a
		}
		// evaluate the right operand under the guard: obligations and state changes are conditional
		g := a
		if y.Op == token.LOR {
			g = Not(a)
		}
		if !exprHasCall(y.Y) {
			b := e.evalCond(y.Y, st)
			if y.Op == token.LAND {
				return And(a, b)
			}
			return Or(a, b)
		}
		rs := st.clone()
		rs.assume(g)
		b := e.evalCond(y.Y, rs)
		// join: state after = ite(g, rs, st)
		ls := st.clone()
		ls.assume(Not(g))
		var res *Term
		if rs.dead {
			// the guarded evaluation ended the path (e.g. panicked): only the unguarded side continues
			st.assume(Not(g))
			if y.Op == token.LAND {
				return TFalse
			}
			return TTrue
		}
		m := c.mergeStates([]*State{rs, ls})
		if m == nil {
			c.note("could not merge short-circuit at %s", c.W.relPos(y.Pos()))
			*st = *rs
		} else {
			*st = *m
		}
		if y.Op == token.LAND {
			res = And(a, b)
		} else {
			res = Or(a, b)
		}
		return res
	}
	lt := e.Info.TypeOf(y.X)
	rt := e.Info.TypeOf(y.Y)
	l := e.eval(y.X, st)
	r := e.eval(y.Y, st)
	switch y.Op {
	case token.EQL, token.NEQ:
		t := lt
		if b, ok := lt.(*types.Basic); ok && b.Kind() == types.UntypedNil {
			t = rt
		}
		eq := c.valueEq(l, r, t)
		if y.Op == token.NEQ {
			return Not(eq)
		}
		return eq
	case token.LSS, token.LEQ, token.GTR, token.GEQ:
		a, ok1 := l.(*Term)
		b, ok2 := r.(*Term)
		if !ok1 || !ok2 || !isIntType(lt) {
			if ls, ok := l.(*SliceV); ok && ls.Str {
				return c.freshVar("strcmp", SBool)
			}
			return c.freshVar("cmp", SBool)
		}
		t := lt
		if b2, ok := lt.(*types.Basic); ok && b2.Info()&types.IsUntyped != 0 {
			t = rt
		}
		return c.compare(y.Op, a, b, t)
	}
	a, ok1 := l.(*Term)
	b, ok2 := r.(*Term)
	t := e.Info.TypeOf(y)
	if !ok1 || !ok2 || !isIntType(t) {
		return e.opaque(y, st)
	}
	if y.Op == token.QUO || y.Op == token.REM {
		c.safety(st, "div0", y.Pos(), Neq(b, coerce(IntC(0), b.Sort)), "division by zero")
	}
	res := c.arith(y.Op, a, b, t, false)
	c.drainSideFacts(st)
	if c.Mode == ModeInt && c.Safety {
		// unsigned 64-bit arithmetic is treated mathematically: absence of wrap-around is an obligation
		if w, signed, ok := intInfo(t); ok && !signed && w == 64 {
			switch y.Op {
			case token.SUB:
				c.safety(st, "ovf", y.Pos(), IGe(res, IntC(0)), "unsigned subtraction does not wrap")
			case token.ADD, token.MUL:
				c.safety(st, "ovf", y.Pos(), ILt(res, IntBig(pow2(64))), "unsigned arithmetic does not wrap")
			}
		}
	}
	return res
}

// valueEq compares two values of Go type t.
func (c *FCtx) valueEq(a, b Value, t types.Type) *Term {
	switch x := a.(type) {
	case *Term:
		if y, ok := b.(*Term); ok {
			x, y = coerce2(x, y)
			if x.Sort != y.Sort {
				return c.freshVar("eq", SBool)
			}
			return Eq(x, y)
		}
		if y, ok := b.(*SliceV); ok {
			return c.valueEq(y, a, t)
		}
	case *SliceV:
		switch y := b.(type) {
		case *SliceV:
			if x.Str || y.Str {
				if isZeroIdx(y.Len) {
					return Eq(x.Len, c.idxC(0))
				}
				if isZeroIdx(x.Len) {
					return Eq(y.Len, c.idxC(0))
				}
				if termEq(x.Base, y.Base) && termEq(x.Off, y.Off) && termEq(x.Len, y.Len) {
					return TTrue
				}
				return App("streq$", SBool, c.bytesOf(nil, x), c.bytesOf(nil, y))
			}
			// slices compare only against nil
			if y.Base.IsConst() {
				return Eq(x.Base, y.Base)
			}
			if x.Base.IsConst() {
				return Eq(x.Base, y.Base)
			}
			return And(Eq(x.Base, y.Base), Eq(x.Off, y.Off), Eq(x.Len, y.Len))
		case *Term:
			if y.IsConst() {
				return Eq(x.Base, IntC(0))
			}
		}
	case *StructV:
		if y, ok := b.(*StructV); ok {
			var cs []*Term
			s := structOf(x.Typ)
			if s == nil {
				break
			}
			for i := 0; i < s.NumFields(); i++ {
				f := s.Field(i)
				cs = append(cs, c.valueEq(x.F[f.Name()], y.F[f.Name()], f.Type()))
			}
			return And(cs...)
		}
	case *KeyV:
		if y, ok := b.(*KeyV); ok {
			if y.Nil.IsTrue() {
				return x.Nil
			}
			if x.Nil.IsTrue() {
				return y.Nil
			}
			return keyEq(x, y)
		}
		if y, ok := b.(*Term); ok && y.IsConst() {
			return x.Nil
		}
	case *IKeyV:
		if y, ok := b.(*IKeyV); ok {
			if y.U.Nil.IsTrue() {
				return x.U.Nil
			}
			if x.U.Nil.IsTrue() {
				return y.U.Nil
			}
			return And(keyEq(x.U, y.U), Or(x.U.Nil, Eq(x.Num, y.Num)))
		}
		if y, ok := b.(*Term); ok && y.IsConst() {
			return x.U.Nil
		}
	case nil:
		return c.freshVar("eq", SBool)
	}
	return c.freshVar("eq", SBool)
}

func isZeroIdx(t *Term) bool {
	return (t.Op == "int" || t.Op == "bvc") && t.Val.Sign() == 0
}

// evalComposite handles T{...} and &T{...}.
func (e *Env) evalComposite(y *ast.CompositeLit, st *State, addr bool) Value {
	c := e.C
	t := e.Info.TypeOf(y)
	if t == nil {
		return e.opaque(y, st)
	}
	switch u := t.Underlying().(type) {
	case *types.Struct:
		sv := c.zeroValue(t).(*StructV)
		for i, el := range y.Elts {
			if kv, ok := el.(*ast.KeyValueExpr); ok {
				name := kv.Key.(*ast.Ident).Name
				var ft types.Type
				for k := 0; k < u.NumFields(); k++ {
					if u.Field(k).Name() == name {
						ft = u.Field(k).Type()
					}
				}
				v := e.eval(kv.Value, st)
				sv.F[name] = e.convertAssign(v, e.Info.TypeOf(kv.Value), ft, st)
			} else if i < u.NumFields() {
				v := e.eval(el, st)
				sv.F[u.Field(i).Name()] = e.convertAssign(v, e.Info.TypeOf(el), u.Field(i).Type(), st)
			}
		}
		if !addr {
			return sv
		}
		ref := c.newRef(st, "new_"+structKey(t))
		// arrays inside a fresh object are zero; other fields as given
		for k := 0; k < u.NumFields(); k++ {
			f := u.Field(k)
			if _, isArr := f.Type().Underlying().(*types.Array); isArr {
				if av, given := sv.F[f.Name()].(*SliceV); given && av != nil {
					c.storeField(st, ref, t, f, av)
				}
				continue
			}
			c.storeField(st, ref, t, f, sv.F[f.Name()])
		}
		return ref
	case *types.Slice:
		n := int64(len(y.Elts))
		base := c.newRef(st, "lit")
		sl := &SliceV{Base: base, Off: c.idxC(0), Len: c.idxC(n), Cap: c.idxC(n), Elem: u.Elem()}
		if n == 0 {
			// empty literal is non-nil but has no content
			return sl
		}
		for i, el := range y.Elts {
			if _, isKV := el.(*ast.KeyValueExpr); isKV {
				return e.opaque(y, st)
			}
			var v Value
			if cl, isCL := el.(*ast.CompositeLit); isCL && cl.Type == nil {
				v = e.evalComposite(cl, st, false)
			} else {
				v = e.eval(el, st)
			}
			c.storeElem(st, sl, c.idxC(int64(i)), e.convertAssign(v, e.Info.TypeOf(el), u.Elem(), st))
		}
		return sl
	case *types.Array:
		base := c.newRef(st, "arrlit")
		sl := &SliceV{Base: base, Off: c.idxC(0), Len: c.idxC(u.Len()), Cap: c.idxC(u.Len()), Elem: u.Elem()}
		for i, el := range y.Elts {
			if _, isKV := el.(*ast.KeyValueExpr); isKV {
				return sl
			}
			c.storeElem(st, sl, c.idxC(int64(i)), e.convertAssign(e.eval(el, st), e.Info.TypeOf(el), u.Elem(), st))
		}
		return sl
	case *types.Map:
		for _, el := range y.Elts {
			if kv, ok := el.(*ast.KeyValueExpr); ok {
				e.eval(kv.Key, st)
				e.eval(kv.Value, st)
			}
		}
		return c.newRef(st, "maplit")
	}
	return e.opaque(y, st)
}

// ---- maps (opaque) ----

func (c *FCtx) mapRead(e *Env, st *State, y *ast.IndexExpr, t types.Type) Value {
	v, facts := c.freshValue(t, "mapv")
	for _, f := range facts {
		st.assume(f)
	}
	return v
}

func (c *FCtx) mapWrite(e *Env, st *State, y *ast.IndexExpr, v Value) {}

func constInt(tv types.TypeAndValue) (int64, bool) {
	if tv.Value == nil || tv.Value.Kind() != constant.Int {
		return 0, false
	}
	return constant.Int64Val(tv.Value)
}

func (c *FCtx) drainSideFacts(st *State) {
	for _, f := range c.sideFacts {
		st.assume(f)
	}
	c.sideFacts = nil
}

var _ = fmt.Sprintf
