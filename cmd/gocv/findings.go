package main

import (
	"os"
	"strings"
)

type Finding struct {
	Prop, Obligation, What string
}

type Findings struct{ list []Finding }

// loadFindings reads known_findings.txt: lines "finding: property=<id> obligation=<name> <what fails>".
// "fixed:" lines suppress nothing.
func loadFindings(path string) *Findings {
	f := &Findings{}
	data, err := os.ReadFile(path)
	if err != nil {
		return f
	}
	for _, l := range strings.Split(string(data), "\n") {
		l = strings.TrimSpace(l)
		if !strings.HasPrefix(l, "finding:") {
			continue
		}
		rest := strings.TrimSpace(strings.TrimPrefix(l, "finding:"))
		var fd Finding
		var what []string
		for _, tok := range strings.Fields(rest) {
			switch {
			case strings.HasPrefix(tok, "property=") && fd.Prop == "":
				fd.Prop = strings.TrimPrefix(tok, "property=")
			case strings.HasPrefix(tok, "obligation=") && fd.Obligation == "":
				fd.Obligation = strings.TrimPrefix(tok, "obligation=")
			default:
				what = append(what, tok)
			}
		}
		fd.What = strings.Join(what, " ")
		f.list = append(f.list, fd)
	}
	return f
}

func (f *Findings) match(prop, obligation string) *Finding {
	for i := range f.list {
		if f.list[i].Prop == prop && f.list[i].Obligation == strings.ReplaceAll(obligation, " ", "_") {
			return &f.list[i]
		}
	}
	return nil
}

// matchLoose: the listed obligation names the failing obligation or a path instance / anchor instance of it.
func (f *Findings) matchLoose(prop, obligation string) *Finding {
	ob := strings.ReplaceAll(obligation, " ", "_")
	for i := range f.list {
		if f.list[i].Prop == prop && (f.list[i].Obligation == ob || strings.HasPrefix(ob, f.list[i].Obligation)) {
			return &f.list[i]
		}
	}
	return nil
}
