package main

// Symbolic values, heap, path condition, per-function verification context.

import (
	"fmt"
	"go/token"
	"go/types"
	"math/big"
	"sort"
	"strings"
)

type Mode int

const (
	ModeInt Mode = iota
	ModeBV
)

// ---- values ----

type Value interface{}

type SliceV struct {
	Base, Off, Len, Cap *Term
	Elem                types.Type
	Str                 bool
	St                  *State // spec evaluation only: state whose memory this slice reads (old(...))
}

type StructV struct {
	Typ types.Type
	F   map[string]Value
}

type TupleV struct{ Vs []Value }

// FuncV is a function literal value (for inlining closures).
type FuncV struct {
	Lit  interface{} // *ast.FuncLit
	Name string
}

// KeyV is an abstract key (rank encoded), used when a type is abstracted.
type KeyV struct {
	Rank *Term // Real
	Nil  *Term // Bool
	Len  *Term // Int
}

// ---- path condition as persistent list ----

type PC struct {
	parent *PC
	t      *Term
	n      int
}

func (p *PC) push(t *Term) *PC {
	if t == nil || t.IsTrue() {
		return p
	}
	n := 1
	if p != nil {
		n = p.n + 1
	}
	return &PC{parent: p, t: t, n: n}
}
func (p *PC) list() []*Term {
	if p == nil {
		return nil
	}
	out := make([]*Term, p.n)
	for q := p; q != nil; q = q.parent {
		out[q.n-1] = q.t
	}
	return out
}
func (p *PC) length() int {
	if p == nil {
		return 0
	}
	return p.n
}

// since returns terms added after ancestor anc (anc must be an ancestor or nil).
func (p *PC) since(anc *PC) []*Term {
	var out []*Term
	for q := p; q != anc && q != nil; q = q.parent {
		out = append(out, q.t)
	}
	// reverse
	for i, j := 0, len(out)-1; i < j; i, j = i+1, j-1 {
		out[i], out[j] = out[j], out[i]
	}
	return out
}

type Def struct {
	Name string
	T    *Term
}

type deferred struct {
	run func(st *State)
}

type State struct {
	vars   map[types.Object]Value
	heap   map[string]*Term
	pc     *PC
	defers [][]deferred // stack of frames
	dead   bool
	hav    []*havocRec // havocs whose keys were not all known at the time (newest last)
	// bookkeeping for K3/K4 obligations evaluated by the protocol layer
	trace []string
}

func (s *State) clone() *State {
	n := &State{vars: make(map[types.Object]Value, len(s.vars)), heap: make(map[string]*Term, len(s.heap)), pc: s.pc, dead: s.dead}
	n.hav = append([]*havocRec(nil), s.hav...)
	for k, v := range s.vars {
		n.vars[k] = v
	}
	for k, v := range s.heap {
		n.heap[k] = v
	}
	n.defers = make([][]deferred, len(s.defers))
	for i, f := range s.defers {
		n.defers[i] = append([]deferred(nil), f...)
	}
	n.trace = append([]string(nil), s.trace...)
	return n
}

func (s *State) assume(t *Term) { s.pc = s.pc.push(t) }

// ---- obligations ----

type Obligation struct {
	Name    string
	Kind    string
	Pos     string
	Hyps    []*Term
	Goal    *Term
	Cover   bool // expected satisfiable
	Bounded int
	Func    string
	Text    string // source text of the clause
	Defs    []*Def
	Extra   []string // extra SMT prelude lines (axioms on spec functions)
	Hints   []*Term
	Axioms  []*Term
	BytesAxioms bool
	RowFrames   []rowFrame
	CoverBase   []*Term // cover of an assumption: the path condition before the assumption (a dead path is not vacuity)
	DeepInst    bool // contract flag deepinst: instantiate the quantified hypotheses at derived source indices too
	shaped  bool
	lifted  bool
	// results
	Verdict string // discharged / refuted / undecided
	Backend string
	Millis  int64
	SMTFile string
	Model   string
	Inputs  map[string]*Term // named input terms for replay
}

// ---- function context ----

type FCtx struct {
	W        *World
	FI       *FuncInfo
	Mode     Mode
	Safety   bool
	Contract *Contract
	Name     string // obligation prefix
	fresh    int
	Defs     []*Def
	Obls     []*Obligation
	ord      map[string]int
	Notes    []string // unsupported constructs etc.
	Axioms   []*Term  // background axioms for spec functions used (collected lazily)
	axSeen   map[string]bool
	inlineDepth int
	Inputs   map[string]*Term
	Assumed  []string
	loopOrd  map[token.Pos]int
	callOrd  map[token.Pos]string
	stmtOrd  map[token.Pos]string
	badAnchors []string
	retOrd   map[token.Pos]int
	siteOrd  map[token.Pos]int
	budgetPaths int
	PropFilter string
	recFuncs map[string]bool
	keySorts map[string]Sort
	rangeIdx map[token.Pos]rangeInfo
	locksTouched  map[string]string
	eventsTouched map[string]string
	LockChecks    bool
	LockSweep     bool
	AutoLocks     bool
	Globals       []*Term // definitional facts about fresh symbols
	RowFrames     []rowFrame
	renamed       map[string]types.Object // baseline name -> current variable (harmless renames)
	renamedCur    map[string]string       // current name -> baseline name
	embTarget     map[string]string
	embSeen       map[string]bool
	embTerms      []*Term
	specAt        token.Pos // program point the spec clause being evaluated is attached to
	AbsKeys       bool
	inGlobalFact  bool
	entry         *State
	topBindings   *Bindings
	paramObjs     []types.Object
	reveal        bool
	sideFacts     []*Term
	recApps       []recApp
	recHeapKeys   map[string][]string // heap arrays read by a recursive spec function over a slice
	recProbing    map[string]bool
	probeKeys     map[string]bool
	recSeen       map[string]bool
	recDepth      int
}

type recApp struct {
	sf   *SpecFunc
	args []TV
	app  *Term
}

func (c *FCtx) freshName(base string) string {
	c.fresh++
	return fmt.Sprintf("%s!%d", base, c.fresh)
}
func (c *FCtx) freshVar(base string, s Sort) *Term { return Var(c.freshName(base), s) }

func (c *FCtx) define(base string, t *Term) *Term {
	if t.Op == "var" || t.IsConst() {
		return t
	}
	name := c.freshName(base)
	c.Defs = append(c.Defs, &Def{Name: name, T: t})
	return Var(name, t.Sort)
}

func (c *FCtx) note(f string, a ...interface{}) {
	msg := fmt.Sprintf(f, a...)
	for _, n := range c.Notes {
		if n == msg {
			return
		}
	}
	c.Notes = append(c.Notes, msg)
}

func (c *FCtx) idxSort() Sort {
	if c.Mode == ModeBV {
		return SBV(64)
	}
	return SInt
}

func (c *FCtx) idxC(v int64) *Term {
	if c.Mode == ModeBV {
		return BVC(big.NewInt(v), 64)
	}
	return IntC(v)
}

// intInfo returns (width, signed) of a Go integer type.
func intInfo(t types.Type) (int, bool, bool) {
	b, ok := t.Underlying().(*types.Basic)
	if !ok {
		return 0, false, false
	}
	switch b.Kind() {
	case types.Int, types.Int64:
		return 64, true, true
	case types.Int32:
		return 32, true, true
	case types.Int16:
		return 16, true, true
	case types.Int8:
		return 8, true, true
	case types.Uint, types.Uint64, types.Uintptr:
		return 64, false, true
	case types.Uint32:
		return 32, false, true
	case types.Uint16:
		return 16, false, true
	case types.Uint8:
		return 8, false, true
	case types.UntypedInt, types.UntypedRune:
		return 64, true, true
	}
	return 0, false, false
}

func isBool(t types.Type) bool {
	b, ok := t.Underlying().(*types.Basic)
	return ok && (b.Kind() == types.Bool || b.Kind() == types.UntypedBool)
}
func isString(t types.Type) bool {
	b, ok := t.Underlying().(*types.Basic)
	return ok && (b.Kind() == types.String || b.Kind() == types.UntypedString)
}

func (c *FCtx) leafSort(t types.Type) Sort {
	if t == nil {
		return SInt
	}
	if isBool(t) {
		return SBool
	}
	if w, _, ok := intInfo(t); ok {
		if c.Mode == ModeBV {
			return SBV(w)
		}
		return SInt
	}
	return SInt
}

func pow2(w int) *big.Int { return new(big.Int).Lsh(big.NewInt(1), uint(w)) }

// rangeFact gives the type-range assumption of an integer leaf (int mode).
func (c *FCtx) rangeFact(t types.Type, v *Term) *Term {
	if c.Mode == ModeBV || t == nil {
		return TTrue
	}
	w, signed, ok := intInfo(t)
	if !ok {
		return TTrue
	}
	if !signed {
		return And(IGe(v, IntC(0)), ILt(v, IntBig(pow2(w))))
	}
	if w < 64 {
		h := pow2(w - 1)
		return And(IGe(v, IntBig(new(big.Int).Neg(h))), ILt(v, IntBig(h)))
	}
	return TTrue
}

func typeKey(t types.Type) string {
	s := types.TypeString(t, func(p *types.Package) string { return p.Name() })
	s = strings.ReplaceAll(s, " ", "")
	if s == "byte" {
		s = "uint8"
	}
	return s
}

// ---- building values of a Go type from leaf generators ----

type leafGen func(path string, t types.Type, s Sort) *Term

func (c *FCtx) build(t types.Type, path string, gen leafGen, arr func(path string, a *types.Array) Value) Value {
	if c.AbsKeys && (isInternalKeyType(t) || isByteSlice(t)) {
		return c.buildKey(t, path, gen)
	}
	switch u := t.Underlying().(type) {
	case *types.Basic:
		if isString(t) {
			ln := gen(path+".len", nil, c.idxSort())
			return &SliceV{Base: gen(path+".base", nil, SInt), Off: gen(path+".off", nil, c.idxSort()),
				Len: ln, Cap: ln, Elem: types.Typ[types.Uint8], Str: true}
		}
		return gen(path, t, c.leafSort(t))
	case *types.Slice:
		return &SliceV{Base: gen(path+".base", nil, SInt), Off: gen(path+".off", nil, c.idxSort()),
			Len: gen(path+".len", nil, c.idxSort()), Cap: gen(path+".cap", nil, c.idxSort()), Elem: u.Elem()}
	case *types.Struct:
		sv := &StructV{Typ: t, F: map[string]Value{}}
		for i := 0; i < u.NumFields(); i++ {
			f := u.Field(i)
			sv.F[f.Name()] = c.build(f.Type(), path+"."+f.Name(), gen, arr)
		}
		return sv
	case *types.Array:
		if arr != nil {
			return arr(path, u)
		}
		return &SliceV{Base: gen(path+".abase", nil, SInt), Off: c.idxC(0), Len: c.idxC(u.Len()), Cap: c.idxC(u.Len()), Elem: u.Elem()}
	default:
		return gen(path, t, SInt)
	}
}

// walkLeaves enumerates leaves of a value built by build (same order / paths).
func (c *FCtx) walkLeaves(t types.Type, v Value, path string, f func(path string, t types.Type, leaf *Term)) {
	if c.AbsKeys && (isInternalKeyType(t) || isByteSlice(t)) {
		switch k := v.(type) {
		case *IKeyV:
			f(path+".urank", nil, k.U.Rank)
			f(path+".unil", nil, k.U.Nil)
			f(path+".ulen", nil, k.U.Len)
			f(path+".num", types.Typ[types.Uint64], k.Num)
			return
		case *KeyV:
			if isInternalKeyType(t) {
				// a user key stored where an internal key is expected cannot happen in typed code
				panic(outOfReach("user key stored as internal key at " + path))
			}
			f(path+".rank", nil, k.Rank)
			f(path+".nil", nil, k.Nil)
			f(path+".klen", nil, k.Len)
			return
		case *Term:
			if k.IsConst() {
				// nil key
				z := c.nilKey(t)
				c.walkLeaves(t, z, path, f)
				return
			}
		}
		panic(outOfReach("non-key value where an abstract key is expected at " + path))
	}
	switch u := t.Underlying().(type) {
	case *types.Basic:
		if isString(t) {
			s := v.(*SliceV)
			f(path+".base", nil, s.Base)
			f(path+".off", nil, s.Off)
			f(path+".len", nil, s.Len)
			return
		}
		f(path, t, v.(*Term))
	case *types.Slice:
		s, ok := v.(*SliceV)
		if !ok {
			panic(fmt.Sprintf("walkLeaves: slice expected at %s, got %T", path, v))
		}
		f(path+".base", nil, s.Base)
		f(path+".off", nil, s.Off)
		f(path+".len", nil, s.Len)
		f(path+".cap", nil, s.Cap)
	case *types.Struct:
		sv, ok := v.(*StructV)
		if !ok {
			panic(fmt.Sprintf("walkLeaves: struct expected at %s, got %T", path, v))
		}
		for i := 0; i < u.NumFields(); i++ {
			fl := u.Field(i)
			c.walkLeaves(fl.Type(), sv.F[fl.Name()], path+"."+fl.Name(), f)
		}
	case *types.Array:
		// arrays inside heap structs are sub-objects: no leaves
	default:
		tm, ok := v.(*Term)
		if !ok {
			if _, isF := v.(*FuncV); isF {
				// a function literal stored in the heap: an opaque non-nil reference
				f(path, t, App("closure$"+path, SInt))
				return
			}
			panic(fmt.Sprintf("walkLeaves: scalar expected at %s (%s), got %T", path, t, v))
		}
		f(path, t, tm)
	}
}

// nilKey: the nil value of an abstracted key type.
func (c *FCtx) nilKey(t types.Type) Value {
	k := &KeyV{Rank: &Term{Op: "var", Name: "nilrank", Sort: SKey}, Nil: TTrue, Len: IntC(0)}
	if isInternalKeyType(t) {
		return &IKeyV{U: k, Num: IntC(0)}
	}
	return k
}

// freshValue creates an unconstrained value of type t and returns wf facts.
func (c *FCtx) freshValue(t types.Type, base string) (Value, []*Term) {
	if c.AbsKeys && (isInternalKeyType(t) || isByteSlice(t)) {
		v := c.buildKey(t, base, func(path string, lt types.Type, s Sort) *Term { return c.freshVar(path, s) })
		return v, c.keyFacts(v)
	}
	var facts []*Term
	var slices []*SliceV
	v := c.build(t, base, func(path string, lt types.Type, s Sort) *Term {
		x := c.freshVar(path, s)
		if lt != nil {
			if f := c.rangeFact(lt, x); !f.IsTrue() {
				facts = append(facts, f)
			}
		}
		return x
	}, nil)
	c.collectSlices(v, &slices)
	for _, s := range slices {
		facts = append(facts, c.sliceWF(s)...)
	}
	return v, facts
}

func (c *FCtx) collectSlices(v Value, out *[]*SliceV) {
	switch x := v.(type) {
	case *SliceV:
		*out = append(*out, x)
	case *StructV:
		var names []string
		for n := range x.F {
			names = append(names, n)
		}
		sort.Strings(names)
		for _, n := range names {
			c.collectSlices(x.F[n], out)
		}
	case *TupleV:
		for _, y := range x.Vs {
			c.collectSlices(y, out)
		}
	}
}

const maxLen = int64(1) << 40

func (c *FCtx) sliceWF(s *SliceV) []*Term {
	z := c.idxC(0)
	var out []*Term
	out = append(out, c.ile(z, s.Off), c.ile(z, s.Len), c.ile(s.Len, s.Cap), c.ile(s.Cap, c.idxC(maxLen)), c.ile(s.Off, c.idxC(maxLen)))
	out = append(out, Implies(Eq(s.Base, IntC(0)), And(Eq(s.Len, z), Eq(s.Cap, z), Eq(s.Off, z))))
	out = append(out, IGe(s.Base, IntC(0)))
	return out
}

// index comparisons in the current mode (signed)
func (c *FCtx) ilt(a, b *Term) *Term {
	if c.Mode == ModeBV {
		return bvCmp("bvslt", a, b)
	}
	return ILt(a, b)
}
func (c *FCtx) ile(a, b *Term) *Term {
	if c.Mode == ModeBV {
		return bvCmp("bvsle", a, b)
	}
	return ILe(a, b)
}
func (c *FCtx) iadd(a, b *Term) *Term {
	if c.Mode == ModeBV {
		return bvBin("bvadd", a, b)
	}
	return IAdd(a, b)
}
func (c *FCtx) isub(a, b *Term) *Term {
	if c.Mode == ModeBV {
		return bvBin("bvsub", a, b)
	}
	return ISub(a, b)
}

// ---- heap ----

func (c *FCtx) heapGet(st *State, key string, s Sort) *Term {
	if _, ok := c.keySorts[key]; !ok {
		c.keySorts[key] = s
	}
	if c.probeKeys != nil {
		c.probeKeys[key] = true
	}
	if t, ok := st.heap[key]; ok {
		return t
	}
	if !isGhostKey(key) {
		for i := len(st.hav) - 1; i >= 0; i-- {
			if st.hav[i].covers(key) {
				return Var(key+"@"+st.hav[i].name, s)
			}
		}
	}
	return Var(key+"@pre", s)
}

// havocRec: a havoc of every key matching one of the prefixes ("*" = all non-ghost keys).
type havocRec struct {
	name     string
	prefixes []string
}

func (h *havocRec) covers(key string) bool {
	for _, p := range h.prefixes {
		if p == "*" || key == p || strings.HasPrefix(key, p+".") {
			return true
		}
	}
	return false
}

func (c *FCtx) heapSet(st *State, key string, t *Term) {
	st.heap[key] = c.define(key, t)
}

func namedOf(t types.Type) *types.Named {
	for {
		switch x := t.(type) {
		case *types.Pointer:
			t = x.Elem()
		case *types.Named:
			return x
		case *types.Alias:
			t = types.Unalias(x)
		default:
			return nil
		}
	}
}

func structKey(t types.Type) string {
	if n := namedOf(t); n != nil {
		if n.Obj().Pkg() != nil {
			return n.Obj().Pkg().Name() + "." + n.Obj().Name()
		}
		return n.Obj().Name()
	}
	return "anon"
}

func structOf(t types.Type) *types.Struct {
	if p, ok := t.Underlying().(*types.Pointer); ok {
		t = p.Elem()
	}
	s, _ := t.Underlying().(*types.Struct)
	return s
}

// embRef: the sub-object holding a struct-typed field (a struct stored by value inside a heap object).
func (c *FCtx) embRef(owner types.Type, f *types.Var, ref *Term) *Term {
	name := "emb$" + structKey(owner) + "." + f.Name()
	if c.embTarget == nil {
		c.embTarget = map[string]string{}
	}
	c.embTarget[name] = structKey(f.Type())
	return App(name, SInt, ref)
}

// embFacts: a sub-object is non-nil and is as old as its owner; distinct fields (of any owners) that hold a struct
// of the same type are distinct objects, and the same field of distinct owners too.
func (c *FCtx) embFacts(state *State, er, ref *Term) {
	a0 := Var("$alloc@pre", SInt)
	state.assume(IGt(er, IntC(0)))
	state.assume(Eq(ILt(ref, a0), ILt(er, a0)))
	k := er.String()
	if c.embSeen == nil {
		c.embSeen = map[string]bool{}
	}
	first := !c.embSeen[k]
	c.embSeen[k] = true
	tgt := c.embTarget[er.Name]
	for _, o := range c.embTerms {
		if o.String() == k || c.embTarget[o.Name] != tgt {
			continue
		}
		if o.Name != er.Name {
			state.assume(Not(Eq(er, o)))
		} else {
			state.assume(Implies(Eq(er, o), Eq(ref, o.Args[0])))
		}
	}
	if first {
		c.embTerms = append(c.embTerms, er)
	}
}

// loadField reads field fname of the struct object at ref (struct type st).
func (c *FCtx) loadField(state *State, ref *Term, owner types.Type, f *types.Var) Value {
	if _, isStruct := f.Type().Underlying().(*types.Struct); isStruct {
		er := c.embRef(owner, f, ref)
		c.embFacts(state, er, ref)
		return c.loadCell(state, er, f.Type())
	}
	base := "F$" + structKey(owner) + "." + f.Name()
	ep := isElemPtr(ref) && ref.Name == "eptr$"+structKey(owner)
	if ep {
		base = c.memKey(owner) + "." + f.Name()
	}
	var facts []*Term
	var slices []*SliceV
	allPre := true
	var refs []*Term
	v := c.build(f.Type(), base, func(path string, lt types.Type, s Sort) *Term {
		var arr, x *Term
		if ep {
			arr = c.heapGet(state, path, SArr(SInt, SArr(c.idxSort(), s)))
			x = Select(Select(arr, ref.Args[0]), ref.Args[1])
		} else {
			arr = c.heapGet(state, path, SArr(SInt, s))
			x = Select(arr, ref)
		}
		if !(arr.Op == "var" && strings.HasSuffix(arr.Name, "@pre")) {
			allPre = false
		}
		if lt != nil {
			if fct := c.rangeFact(lt, x); !fct.IsTrue() {
				facts = append(facts, fct)
			}
			if s == SInt && !isIntType(lt) {
				// the heap is closed under allocation: stored references are allocated
				facts = append(facts, ILt(x, c.heapGet(state, "$alloc", SInt)))
				refs = append(refs, x)
			}
		}
		return x
	}, func(path string, a *types.Array) Value {
		return &SliceV{Base: App("sub$"+path, SInt, ref), Off: c.idxC(0), Len: c.idxC(a.Len()), Cap: c.idxC(a.Len()), Elem: a.Elem()}
	})
	c.collectSlices(v, &slices)
	allocNow := c.heapGet(state, "$alloc", SInt)
	for _, s := range slices {
		if s.Base.Op == "app" && strings.HasPrefix(s.Base.Name, "sub$") {
			facts = append(facts, IGt(s.Base, IntC(0)))
			facts = append(facts, Implies(ILt(ref, Var("$alloc@pre", SInt)), ILt(s.Base, Var("$alloc@pre", SInt))))
			continue
		}
		facts = append(facts, c.sliceWF(s)...)
		// the heap is closed under allocation
		facts = append(facts, ILt(s.Base, allocNow))
		if allPre {
			facts = append(facts, ILt(s.Base, Var("$alloc@pre", SInt)))
		}
	}
	if allPre {
		// read from the heap of the entry state: allocated before the function started
		for _, x := range refs {
			facts = append(facts, ILt(x, Var("$alloc@pre", SInt)))
		}
	}
	for _, fct := range facts {
		state.assume(fct)
	}
	return v
}

func (c *FCtx) storeField(state *State, ref *Term, owner types.Type, f *types.Var, v Value) {
	if _, isStruct := f.Type().Underlying().(*types.Struct); isStruct {
		er := c.embRef(owner, f, ref)
		c.embFacts(state, er, ref)
		c.storeCell(state, er, f.Type(), v)
		return
	}
	base := "F$" + structKey(owner) + "." + f.Name()
	if _, isArr := f.Type().Underlying().(*types.Array); isArr {
		// array assignment by value: copy contents
		src, ok := v.(*SliceV)
		if !ok {
			c.note("unsupported array field store %s", base)
			return
		}
		dst := c.loadField(state, ref, owner, f).(*SliceV)
		c.copyInto(state, dst, src, dst.Len)
		return
	}
	if isElemPtr(ref) && ref.Name == "eptr$"+structKey(owner) {
		// a write through &s[i] is a write of the element
		base = c.memKey(owner) + "." + f.Name()
		c.walkLeaves(f.Type(), v, base, func(path string, lt types.Type, leaf *Term) {
			mem := c.heapGet(state, path, SArr(SInt, SArr(c.idxSort(), leaf.Sort)))
			inner := Select(mem, ref.Args[0])
			c.heapSet(state, path, Store(mem, ref.Args[0], Store(inner, ref.Args[1], leaf)))
		})
		return
	}
	c.walkLeaves(f.Type(), v, base, func(path string, lt types.Type, leaf *Term) {
		arr := c.heapGet(state, path, SArr(SInt, leaf.Sort))
		c.heapSet(state, path, Store(arr, ref, leaf))
	})
}

// ---- element memory ----

func (c *FCtx) memKey(elem types.Type) string { return "M$" + typeKey(elem) }

// loadElem reads element idx (already offset-adjusted absolute index) of base.
func (c *FCtx) loadElem(state *State, s *SliceV, idx *Term) Value {
	abs := c.iadd(s.Off, idx)
	base := c.memKey(s.Elem)
	var facts []*Term
	var slices []*SliceV
	// the heap is closed under allocation: references stored in it are allocated; what is read from the heap of
	// the entry state was allocated before the function started
	allPre := true
	var refs []*Term
	v := c.build(s.Elem, base, func(path string, lt types.Type, srt Sort) *Term {
		mem := c.heapGet(state, path, SArr(SInt, SArr(c.idxSort(), srt)))
		if !(mem.Op == "var" && strings.HasSuffix(mem.Name, "@pre")) {
			allPre = false
		}
		x := Select(Select(mem, s.Base), abs)
		if lt != nil {
			if fct := c.rangeFact(lt, x); !fct.IsTrue() {
				facts = append(facts, fct)
			}
			if srt == SInt && !isIntType(lt) {
				refs = append(refs, x)
			}
		}
		return x
	}, nil)
	c.collectSlices(v, &slices)
	bound := c.heapGet(state, "$alloc", SInt)
	if allPre {
		bound = Var("$alloc@pre", SInt)
	}
	for _, x := range refs {
		facts = append(facts, ILt(x, bound))
	}
	for _, sl := range slices {
		facts = append(facts, c.sliceWF(sl)...)
		facts = append(facts, ILt(sl.Base, bound))
	}
	for _, fct := range facts {
		state.assume(fct)
	}
	return v
}

func (c *FCtx) storeElem(state *State, s *SliceV, idx *Term, v Value) {
	abs := c.iadd(s.Off, idx)
	base := c.memKey(s.Elem)
	c.walkLeaves(s.Elem, v, base, func(path string, lt types.Type, leaf *Term) {
		mem := c.heapGet(state, path, SArr(SInt, SArr(c.idxSort(), leaf.Sort)))
		inner := Select(mem, s.Base)
		c.heapSet(state, path, Store(mem, s.Base, Store(inner, abs, leaf)))
	})
}

// memLeafPaths lists (path, sort) for the element type.
func (c *FCtx) memLeaves(elem types.Type) []struct {
	Path string
	S    Sort
} {
	var out []struct {
		Path string
		S    Sort
	}
	c.build(elem, c.memKey(elem), func(path string, lt types.Type, s Sort) *Term {
		out = append(out, struct {
			Path string
			S    Sort
		}{path, s})
		return IntC(0)
	}, nil)
	return out
}

// copyInto models copy(dst[0:n], src[0:n]) with memmove semantics.
func (c *FCtx) copyInto(state *State, dst, src *SliceV, n *Term) {
	for _, lf := range c.memLeaves(dst.Elem) {
		memS := SArr(SInt, SArr(c.idxSort(), lf.S))
		mem := c.heapGet(state, lf.Path, memS)
		oldDst := Select(mem, dst.Base)
		oldSrc := Select(mem, src.Base)
		na := c.freshVar("cp", SArr(c.idxSort(), lf.S))
		i := Var(c.freshName("i"), c.idxSort())
		inRange := And(c.ile(dst.Off, i), c.ilt(i, c.iadd(dst.Off, n)))
		// copied part
		state.assume(&Term{Op: "forall", Bound: []*Term{i}, Sort: SBool, Args: []*Term{
			Implies(inRange, Eq(Select(na, i), Select(oldSrc, c.iadd(src.Off, c.isub(i, dst.Off)))))},
			Pats: [][]*Term{{Select(na, i)}}})
		j := Var(c.freshName("i"), c.idxSort())
		inRangeJ := And(c.ile(dst.Off, j), c.ilt(j, c.iadd(dst.Off, n)))
		state.assume(&Term{Op: "forall", Bound: []*Term{j}, Sort: SBool, Args: []*Term{
			Implies(Not(inRangeJ), Eq(Select(na, j), Select(oldDst, j)))},
			Pats: [][]*Term{{Select(na, j)}}})
		c.heapSet(state, lf.Path, Store(mem, dst.Base, na))
	}
}
