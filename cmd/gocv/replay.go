package main

import (
	"regexp"
	"encoding/json"
	"fmt"
	"os"
	"os/exec"
	"path/filepath"
	"strings"
)

// writeReplay writes the replay file of a failed obligation group: obligation, clause, position, solver output,
// and (when the model could be extracted and a driver exists) the failing input.
func (w *World) writeReplay(o *Options, g *group, dir string) string {
	path := filepath.Join(dir, sanitize(o.Prop+"-"+g.Name)+".txt")
	var sb strings.Builder
	fmt.Fprintf(&sb, "property: %s\nobligation: %s\n", o.Prop, g.Name)
	reproduced := false
	for _, m := range g.Members {
		if m.Verdict == "discharged" {
			continue
		}
		fmt.Fprintf(&sb, "\npath-instance: %s\nverdict: %s\nclause: %s\nposition: %s\nsmt: %s\nsolver: %s\n", m.Name, m.Verdict, m.Text, m.Pos, m.SMTFile, m.Backend)
		if m.Verdict == "refuted" || m.Verdict == "undecided" {
			if r := w.tryReplay(o, m); r != nil {
				sb.WriteString(r.Text)
				if r.Reproduced {
					reproduced = true
				}
			}
		}
		out := m.Model
		if len(out) > 4000 {
			out = out[:4000] + "\n...(truncated)"
		}
		fmt.Fprintf(&sb, "solver-output:\n%s\n", out)
	}
	if reproduced {
		sb.WriteString("\nREPRODUCED-ON-REAL-CODE: yes\n")
	} else {
		sb.WriteString("\nREPRODUCED-ON-REAL-CODE: no (no-failing-input-found)\n")
	}
	os.WriteFile(path, []byte(sb.String()), 0o644)
	return path
}

func replayReproduced(path string) bool {
	b, err := os.ReadFile(path)
	if err != nil {
		return false
	}
	return strings.Contains(string(b), "REPRODUCED-ON-REAL-CODE: yes")
}

type replayResult struct {
	Text       string
	Reproduced bool
}

// tryReplay: path-only counterexamples (typestate, ordering) have no input to feed back; where a scenario driver
// is registered for the obligation (scenarios/map.json) it is run against the real code. A driver that FAILS
// has reproduced the violation.
func (w *World) tryReplay(o *Options, m *Obligation) *replayResult {
	return w.scenarioReplay(o, m.Name)
}

type scenarioMap struct {
	Obligation string `json:"obligation"`
	Test       string `json:"test"`
	// in-package drivers (they need unexported knobs): File under scenarios/inpkg is overlaid into package Pkg
	// (a directory of the repository, e.g. "leveldb") for the run; nothing is written to the repository
	Pkg  string `json:"pkg,omitempty"`
	File string `json:"file,omitempty"`
}

var scenarioCache = map[string]*replayResult{}

func (w *World) scenarioReplay(o *Options, obligation string) *replayResult {
	dir := filepath.Join(filepath.Dir(o.Findings), "scenarios")
	data, err := os.ReadFile(filepath.Join(dir, "map.json"))
	if err != nil {
		return nil
	}
	var ms []scenarioMap
	if json.Unmarshal(data, &ms) != nil {
		return nil
	}
	for _, sm := range ms {
		if !strings.Contains(stripPropLabels(obligation), stripPropLabels(sm.Obligation)) {
			continue
		}
		key := sm.Test + "@" + o.Repo
		if r, ok := scenarioCache[key]; ok {
			return r
		}
		run := dir
		if o.Repo != "/repo" {
			// scenarios against a scratch copy: same drivers, module replaced by that copy
			tmp, err := os.MkdirTemp("", "gocv-scn-")
			if err != nil {
				return nil
			}
			defer os.RemoveAll(tmp)
			ents, _ := os.ReadDir(dir)
			for _, en := range ents {
				b, _ := os.ReadFile(filepath.Join(dir, en.Name()))
				if en.Name() == "go.mod" {
					b = []byte(strings.ReplaceAll(string(b), "=> /repo", "=> "+o.Repo))
				}
				os.WriteFile(filepath.Join(tmp, en.Name()), b, 0o644)
			}
			run = tmp
		}
		cmd := exec.Command("go", "test", "-count=1", "-vet=off", "-timeout", "120s", "-run", "^"+sm.Test+"$", ".")
		cmd.Dir = run
		if sm.Pkg != "" {
			ovd, err := os.MkdirTemp("", "gocv-ov-")
			if err != nil {
				return nil
			}
			defer os.RemoveAll(ovd)
			ov := map[string]map[string]string{"Replace": {
				filepath.Join(o.Repo, sm.Pkg, "zz_scenario_driver_test.go"): filepath.Join(dir, "inpkg", sm.File)}}
			ob, _ := json.Marshal(ov)
			ovf := filepath.Join(ovd, "overlay.json")
			os.WriteFile(ovf, ob, 0o644)
			cmd = exec.Command("go", "test", "-overlay", ovf, "-count=1", "-vet=off", "-timeout", "120s", "-run", "^"+sm.Test+"$", "./"+sm.Pkg+"/")
			cmd.Dir = o.Repo
		}
		cmd.Env = append(os.Environ(), "GOFLAGS=-mod=mod", "GOPROXY=off", "GOSUMDB=off", "GOTOOLCHAIN=local")
		out, err := cmd.CombinedOutput()
		res := &replayResult{}
		txt := string(out)
		if len(txt) > 3000 {
			txt = txt[len(txt)-3000:]
		}
		switch {
		case err != nil && strings.Contains(string(out), "--- FAIL"):
			res.Reproduced = true
			res.Text = fmt.Sprintf("scenario driver %s (scenarios/) FAILED on the real code, i.e. the violation reproduces:\n%s\nreplay with: cd /verif/scenarios && go test -run '^%s$' .   (in-package drivers: go test -overlay, see scenarios/README)\n", sm.Test, txt, sm.Test)
		case err != nil:
			res.Text = fmt.Sprintf("scenario driver %s could not be run:\n%s\n", sm.Test, txt)
		default:
			res.Text = fmt.Sprintf("scenario driver %s passed on the real code (violation not reproduced by this driver)\n", sm.Test)
		}
		scenarioCache[key] = res
		return res
	}
	return nil
}

func (w *World) extraChecks(o *Options) []*FuncResult {
	if o.Prop == "C09" {
		return w.runSweep(o)
	}
	return nil
}

type scenarioRun struct {
	test, obligation string
	res              *replayResult
}

// runScenariosFor runs each scenario driver mapped to one of the given obligations once.
func (w *World) runScenariosFor(o *Options, obligations []string) []scenarioRun {
	dir := filepath.Join(filepath.Dir(o.Findings), "scenarios")
	data, err := os.ReadFile(filepath.Join(dir, "map.json"))
	if err != nil {
		return nil
	}
	var ms []scenarioMap
	if json.Unmarshal(data, &ms) != nil {
		return nil
	}
	done := map[string]bool{}
	var out []scenarioRun
	for _, ob := range obligations {
		for _, sm := range ms {
			if !strings.Contains(stripPropLabels(ob), stripPropLabels(sm.Obligation)) || done[sm.Test] {
				continue
			}
			done[sm.Test] = true
			if r := w.scenarioReplay(o, ob); r != nil {
				out = append(out, scenarioRun{test: sm.Test, obligation: ob, res: r})
			}
			break
		}
	}
	return out
}

var propLabelRe = regexp.MustCompile(`C\d\d(,C\d\d)*:`)

// stripPropLabels removes the property prefixes of clause labels ("C01,C19:") from an obligation name, so that a
// clause that is later scoped to one more property keeps its scenario drivers.
func stripPropLabels(s string) string { return propLabelRe.ReplaceAllString(s, "") }
