package main

import (
	"fmt"
	"os"
	"path/filepath"
	"strings"
)

// writeReplay writes the replay file of a failed obligation group: obligation, clause, position, solver output,
// and (when the model could be extracted and a driver exists) the failing input.
func (w *World) writeReplay(o *Options, g *group, dir string) string {
	path := filepath.Join(dir, sanitize(o.Prop+"-"+g.Name)+".txt")
	var sb strings.Builder
	fmt.Fprintf(&sb, "property: %s\nobligation: %s\n", o.Prop, g.Name)
	reproduced := false
	for _, m := range g.Members {
		if m.Verdict == "discharged" {
			continue
		}
		fmt.Fprintf(&sb, "\npath-instance: %s\nverdict: %s\nclause: %s\nposition: %s\nsmt: %s\nsolver: %s\n", m.Name, m.Verdict, m.Text, m.Pos, m.SMTFile, m.Backend)
		if m.Verdict == "refuted" {
			if r := w.tryReplay(o, m); r != nil {
				sb.WriteString(r.Text)
				if r.Reproduced {
					reproduced = true
				}
			}
		}
		out := m.Model
		if len(out) > 4000 {
			out = out[:4000] + "\n...(truncated)"
		}
		fmt.Fprintf(&sb, "solver-output:\n%s\n", out)
	}
	if reproduced {
		sb.WriteString("\nREPRODUCED-ON-REAL-CODE: yes\n")
	} else {
		sb.WriteString("\nREPRODUCED-ON-REAL-CODE: no (no-failing-input-found)\n")
	}
	os.WriteFile(path, []byte(sb.String()), 0o644)
	return path
}

func replayReproduced(path string) bool {
	b, err := os.ReadFile(path)
	if err != nil {
		return false
	}
	return strings.Contains(string(b), "REPRODUCED-ON-REAL-CODE: yes")
}

type replayResult struct {
	Text       string
	Reproduced bool
}

func (w *World) tryReplay(o *Options, m *Obligation) *replayResult { return nil }

func (w *World) extraChecks(o *Options) []*FuncResult { return nil }
