package main

// Function literals as units of verification. A contract keyed "f$k" is about the k-th function literal (source
// order, nested ones included) in the body of f. The literal is verified like a function whose parameters are its
// own and whose free variables (the locals of the enclosing function it captures) are arbitrary at entry; its
// contract may speak about them by name and with old(...).

import (
	"fmt"
	"go/ast"
	"go/token"
	"go/types"
	"strconv"
	"strings"
)

// litFunc resolves "pkg.f$k" to a synthetic FuncInfo.
func (w *World) litFunc(key string) *FuncInfo {
	if fi, ok := w.Funcs[key]; ok {
		return fi
	}
	i := strings.LastIndex(key, "$")
	if i < 0 {
		return nil
	}
	k, err := strconv.Atoi(key[i+1:])
	if err != nil || k < 1 {
		return nil
	}
	parent := w.Funcs[key[:i]]
	if parent == nil || parent.Decl == nil || parent.Decl.Body == nil {
		return nil
	}
	var lits []*ast.FuncLit
	ast.Inspect(parent.Decl.Body, func(n ast.Node) bool {
		if l, ok := n.(*ast.FuncLit); ok {
			lits = append(lits, l)
		}
		return true
	})
	if k > len(lits) {
		return nil
	}
	lit := lits[k-1]
	sig, _ := parent.Pkg.TypesInfo.TypeOf(lit).(*types.Signature)
	if sig == nil {
		return nil
	}
	name := fmt.Sprintf("%s$%d", parent.Decl.Name.Name, k)
	decl := &ast.FuncDecl{Name: &ast.Ident{Name: name, NamePos: lit.Pos()}, Type: lit.Type, Body: lit.Body}
	obj := types.NewFunc(lit.Pos(), parent.Pkg.Types, name, sig)
	fi := &FuncInfo{Key: key, Short: parent.Short + "$" + key[i+1:], Pkg: parent.Pkg, Decl: decl, Obj: obj, File: parent.File, Lit: lit, Parent: parent}
	w.Funcs[key] = fi
	return fi
}

// capturedVars lists the variables of the enclosing function that the literal uses.
func capturedVars(fi *FuncInfo) []*types.Var {
	if fi.Lit == nil {
		return nil
	}
	info := fi.Pkg.TypesInfo
	seen := map[*types.Var]bool{}
	var out []*types.Var
	lo, hi := fi.Lit.Pos(), fi.Lit.End()
	ast.Inspect(fi.Lit.Body, func(n ast.Node) bool {
		id, ok := n.(*ast.Ident)
		if !ok {
			return true
		}
		v, ok := info.Uses[id].(*types.Var)
		if !ok || v.IsField() || v.Pkg() == nil || v.Parent() == v.Pkg().Scope() {
			return true
		}
		if v.Pos() >= lo && v.Pos() <= hi {
			return true // declared inside the literal
		}
		if !seen[v] {
			seen[v] = true
			out = append(out, v)
		}
		return true
	})
	return out
}

var _ = token.NoPos
