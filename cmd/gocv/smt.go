package main

// SMT-LIB emission and solver racing.

import (
	"bytes"
	"context"
	"crypto/sha1"
	"fmt"
	"os"
	"os/exec"
	"path/filepath"
	"regexp"
	"sort"
	"strings"
	"sync"
	"time"
)

// preludeFor builds declarations/axioms for the abstractions an obligation uses.
func preludeAxioms(o *Obligation, used map[string]symInfo, bv bool) []string {
	var out []string
	idx := "Int"
	bt := "Int"
	if bv {
		idx = "(_ BitVec 64)"
		bt = "(_ BitVec 8)"
	}
	if _, ok := used["bytes$"]; ok && o.BytesAxioms {
		le, lt, add, zero := "<=", "<", "+", "0"
		if bv {
			le, lt, add, zero = "bvsle", "bvslt", "bvadd", "(_ bv0 64)"
		}
		out = append(out,
			fmt.Sprintf("(declare-fun blen$ (Bytes) %s)", idx),
			fmt.Sprintf("(declare-fun bat$ (Bytes %s) %s)", idx, bt),
			fmt.Sprintf("(assert (forall ((A (Array %s %s)) (o %s) (n %s)) (! (=> (%s %s n) (= (blen$ (bytes$ A o n)) n)) :pattern ((bytes$ A o n)))))", idx, bt, idx, idx, le, zero),
			fmt.Sprintf("(assert (forall ((A (Array %s %s)) (o %s) (n %s) (i %s)) (! (=> (and (%s %s i) (%s i n)) (= (bat$ (bytes$ A o n) i) (select A (%s o i)))) :pattern ((bat$ (bytes$ A o n) i)))))", idx, bt, idx, idx, idx, le, zero, lt, add),
		)
	}
	return out
}

var bvRe = regexp.MustCompile(`\(_ BitVec`)

func writeSMT(o *Obligation, path string, axioms []*Term, forCVC5 bool, getValues []*Term) (string, error) {
	var sb strings.Builder
	syms := map[string]symInfo{}
	sorts := map[Sort]bool{}
	bound := map[string]bool{}
	terms := append([]*Term{}, o.Hyps...)
	terms = append(terms, o.Goal)
	terms = append(terms, axioms...)
	for _, t := range terms {
		collectSyms(t, bound, syms, sorts)
	}
	for _, t := range getValues {
		collectSyms(t, bound, syms, sorts)
	}
	// definitions: closure, in creation order
	defByName := map[string]*Def{}
	for _, d := range o.Defs {
		defByName[d.Name] = d
	}
	needed := map[string]bool{}
	var visit func(name string)
	visit = func(name string) {
		if needed[name] {
			return
		}
		d, ok := defByName[name]
		if !ok {
			return
		}
		needed[name] = true
		ds := map[string]symInfo{}
		collectSyms(d.T, bound, ds, sorts)
		for n, si := range ds {
			if _, isDef := defByName[n]; isDef {
				visit(n)
			} else {
				syms[n] = si
			}
		}
	}
	for n := range syms {
		if _, isDef := defByName[n]; isDef {
			visit(n)
		}
	}
	// ground instances of "a store outside [o, o+n) keeps bytes$(A, o, n)"
	var scan []*Term
	scan = append(scan, terms...)
	for _, d := range o.Defs {
		if needed[d.Name] {
			scan = append(scan, d.T)
		}
	}
	rf := rowFrameInstances(scan, o.RowFrames, defByName)
	scan = append(scan, rf...)
	insts := append(rf, bytesStoreInstances(scan)...)
	for _, t := range insts {
		collectSyms(t, bound, syms, sorts)
	}
	usesBV := false
	for _, si := range syms {
		if si.res.IsBV() || strings.Contains(string(si.res), "BitVec") {
			usesBV = true
		}
	}
	sb.WriteString("(set-option :produce-models true)\n")
	sb.WriteString("(set-logic ALL)\n")
	if sorts[SBytes] {
		sb.WriteString("(declare-sort Bytes 0)\n")
	}
	for _, si := range sortedSyms(syms) {
		if _, isDef := defByName[si.name]; isDef && needed[si.name] {
			continue
		}
		if strings.HasSuffix(si.name, "$") && builtinUF[si.name] != "" && len(si.args) > 0 {
			// declared below with axioms
		}
		var as []string
		for _, a := range si.args {
			as = append(as, string(a))
		}
		fmt.Fprintf(&sb, "(declare-fun %s (%s) %s)\n", smtName(si.name), strings.Join(as, " "), si.res)
	}
	for _, d := range o.Defs {
		if needed[d.Name] {
			fmt.Fprintf(&sb, "(define-fun %s () %s %s)\n", smtName(d.Name), d.T.Sort, d.T.String())
		}
	}
	for _, l := range preludeAxioms(o, syms, usesBV) {
		sb.WriteString(l + "\n")
	}
	for _, l := range o.Extra {
		sb.WriteString(l + "\n")
	}
	for _, a := range axioms {
		fmt.Fprintf(&sb, "(assert %s)\n", a.String())
	}
	for _, a := range insts {
		fmt.Fprintf(&sb, "(assert %s)\n", a.String())
	}
	seenH := map[string]bool{}
	for _, h := range o.Hyps {
		hs := h.String()
		if seenH[hs] {
			continue
		}
		seenH[hs] = true
		fmt.Fprintf(&sb, "(assert %s)\n", hs)
	}
	if !o.Cover {
		fmt.Fprintf(&sb, "(assert (not %s))\n", o.Goal.String())
	}
	sb.WriteString("(check-sat)\n")
	if len(getValues) > 0 {
		sb.WriteString("(get-value (")
		for i, t := range getValues {
			if i > 0 {
				sb.WriteString(" ")
			}
			sb.WriteString(t.String())
		}
		sb.WriteString("))\n")
	}
	s := sb.String()
	if path != "" {
		if err := os.WriteFile(path, []byte(s), 0o644); err != nil {
			return "", err
		}
	}
	return s, nil
}

var builtinUF = map[string]string{}

// bytesStoreInstances: for every bytes$(X, o, n) and every store(A0, i, v) on a byte array in the VC,
// (X = store(A0,i,v) and i outside [o,o+n)) => bytes$(X,o,n) = bytes$(A0,o,n); iterated to a small depth.
func bytesStoreInstances(terms []*Term) []*Term {
	type bt struct{ x, o, n *Term }
	var bys []bt
	seenB := map[string]bool{}
	var stores []*Term
	seenS := map[string]bool{}
	var walk func(t *Term, inQ bool)
	walk = func(t *Term, inQ bool) {
		if t.Op == "forall" || t.Op == "exists" {
			inQ = true
		}
		if !inQ {
			if t.Op == "app" && t.Name == "bytes$" {
				k := t.String()
				if !seenB[k] {
					seenB[k] = true
					bys = append(bys, bt{t.Args[0], t.Args[1], t.Args[2]})
				}
			}
			if t.Op == "store" {
				_, e := t.Sort.ArrParts()
				if !e.IsArr() && rowLike(t) {
					k := t.String()
					if !seenS[k] {
						seenS[k] = true
						stores = append(stores, t)
					}
				}
			}
		}
		for _, a := range t.Args {
			walk(a, inQ)
		}
	}
	for _, t := range terms {
		walk(t, false)
	}
	if len(bys) == 0 || len(stores) == 0 {
		return nil
	}
	var out []*Term
	for round := 0; round < 4; round++ {
		var nb []bt
		for _, b := range bys {
			for _, st := range stores {
				if st.Sort != b.x.Sort {
					continue
				}
				a0, i := st.Args[0], st.Args[1]
				var outside *Term
				if i.Sort.IsBV() {
					outside = Or(bvCmp("bvslt", i, b.o), bvCmp("bvsle", bvBin("bvadd", b.o, b.n), i))
				} else {
					outside = Or(ILt(i, b.o), ILe(IAdd(b.o, b.n), i))
				}
				nt := App("bytes$", SBytes, a0, b.o, b.n)
				out = append(out, Implies(And(Eq(b.x, st), outside), Eq(App("bytes$", SBytes, b.x, b.o, b.n), nt)))
				k := nt.String()
				if !seenB[k] {
					seenB[k] = true
					nb = append(nb, bt{a0, b.o, b.n})
				}
			}
		}
		if len(out) > 400 {
			break
		}
		bys = nb
		if len(bys) == 0 {
			break
		}
	}
	return out
}

type solverSpec struct {
	name string
	args func(file string, secs int) []string
}

var solvers = []solverSpec{
	{"z3-new-5.1.0", func(f string, s int) []string { return []string{"z3-new", fmt.Sprintf("-T:%d", s), f} }},
	{"z3-4.8.12", func(f string, s int) []string { return []string{"z3", fmt.Sprintf("-T:%d", s), f} }},
	{"cvc5-1.0", func(f string, s int) []string { return []string{"cvc5", fmt.Sprintf("--tlimit=%d", s*1000), f} }},
}

type solveResult struct {
	answer  string // sat unsat unknown timeout error
	backend string
	millis  int64
	output  string
}

func runSolver(ctx context.Context, sp solverSpec, file string, secs int) solveResult {
	a := sp.args(file, secs)
	cctx, cancel := context.WithTimeout(ctx, time.Duration(secs+2)*time.Second)
	defer cancel()
	cmd := exec.CommandContext(cctx, a[0], a[1:]...)
	var out bytes.Buffer
	cmd.Stdout = &out
	cmd.Stderr = &out
	t0 := time.Now()
	_ = cmd.Run()
	ms := time.Since(t0).Milliseconds()
	first := strings.TrimSpace(strings.SplitN(out.String(), "\n", 2)[0])
	ans := "unknown"
	switch first {
	case "sat", "unsat", "unknown":
		ans = first
	case "timeout":
		ans = "timeout"
	default:
		if strings.Contains(first, "error") || strings.Contains(out.String(), "(error") {
			ans = "error"
		}
		if cctx.Err() != nil {
			ans = "timeout"
		}
	}
	return solveResult{answer: ans, backend: sp.name, millis: ms, output: out.String()}
}

// discharge decides one obligation by racing the solvers.
// shape: skolemise a universally quantified goal and instantiate universally quantified hypotheses at the
// skolem constants (by sort); the original hypotheses are kept.
func shape(o *Obligation) {
	if o.Cover || o.shaped {
		return
	}
	o.shaped = true
	goal := o.Goal
	var sks []*Term
	var prem []*Term
	n := 0
	for {
		if goal.Op == "forall" {
			m := map[string]*Term{}
			for _, v := range goal.Bound {
				n++
				sk := Var(fmt.Sprintf("sk!%d!%s", n, v.Name), v.Sort)
				m[v.Name] = sk
				sks = append(sks, sk)
			}
			goal = subst(goal.Args[0], m)
			continue
		}
		if goal.Op == "=>" && goal.Args[1].Op == "forall" {
			prem = append(prem, goal.Args[0])
			goal = goal.Args[1]
			continue
		}
		break
	}
	// further instantiation points: ground index terms of element reads (tf[index-1], buf[n], ...)
	srcs := append([]*Term{goal}, append(prem, o.Hyps...)...)
	for _, d := range o.Defs {
		srcs = append(srcs, d.T)
	}
	extra := elementIndexTerms(srcs, 24)
	if len(sks) == 0 && len(extra) == 0 {
		return
	}
	seenSk := map[string]bool{}
	for _, sk := range sks {
		seenSk[sk.String()] = true
	}
	for _, x := range extra {
		if !seenSk[x.String()] {
			seenSk[x.String()] = true
			sks = append(sks, x)
		}
	}
	o.Goal = goal
	hyps := append([]*Term{}, o.Hyps...)
	hyps = append(hyps, prem...)
	var insts []*Term
	for _, h := range o.Hyps {
		insts = append(insts, instantiateAt(h, sks, 0)...)
		if len(insts) > 400 {
			break
		}
	}
	for _, ax := range o.Axioms {
		insts = append(insts, instantiateAt(ax, sks, 0)...)
	}
	// pattern-driven rounds: a definitional fact "forall i :: ... (select A i) ..." about a built array A (append,
	// copy) is instantiated wherever (select A t) occurs among the goal, the hypotheses and the instances so far;
	// the instances read their sources at derived indices, so this is repeated a few times
	var pats []*Term
	for _, h := range o.Hyps {
		pats = append(pats, patternForalls(h)...)
	}
	if len(pats) > 0 {
		defByName := map[string]*Def{}
		for _, d := range o.Defs {
			defByName[d.Name] = d
		}
		done := map[string]bool{}
		var patInsts []*Term
		pool := append([]*Term{goal}, prem...)
		pool = append(pool, o.Hyps...)
		pool = append(pool, insts...)
		total := 0
		for round := 0; round < 3 && total < 300; round++ {
			occ := map[string][]*Term{} // array term -> index terms
			seenOcc := map[string]bool{}
			var walk func(t *Term)
			walk = func(t *Term) {
				if t == nil || t.Op == "forall" || t.Op == "exists" {
					return
				}
				if t.Op == "select" && len(t.Args) == 2 {
					// (select (select M b) t) where M is a store at b: the row is the stored array
					k := resolveRow(t.Args[0], defByName).String()
					if !seenOcc[t.String()] {
						seenOcc[t.String()] = true
						occ[k] = append(occ[k], t.Args[1])
					}
				}
				for _, a := range t.Args {
					walk(a)
				}
			}
			for _, t := range pool {
				walk(t)
			}
			var fresh []*Term
			for _, q := range pats {
				body := q
				var guards []*Term
				for body.Op == "=>" {
					guards = append(guards, body.Args[0])
					body = body.Args[1]
				}
				pat := body.Pats[0][0]
				for _, t := range occ[pat.Args[0].String()] {
					key := q.String() + "@" + t.String()
					if done[key] || total >= 300 {
						continue
					}
					done[key] = true
					inst := subst(body.Args[0], map[string]*Term{body.Bound[0].Name: t})
					for i := len(guards) - 1; i >= 0; i-- {
						inst = Implies(guards[i], inst)
					}
					fresh = append(fresh, inst)
					total++
				}
			}
			if len(fresh) == 0 {
				break
			}
			insts = append(insts, fresh...)
			patInsts = append(patInsts, fresh...)
			pool = fresh
		}
		// the other quantified hypotheses (sortedness of the source slices, callee postconditions) are needed at the
		// source indices the built arrays were read at
		var newIdx []*Term
		for _, x := range elementIndexTerms(patInsts, 600) {
			if hasSkolem(x) && !seenSk[x.String()] && len(newIdx) < 40 {
				seenSk[x.String()] = true
				newIdx = append(newIdx, x)
			}
		}
		// the hypotheses speak of indices relative to a slice: an absolute index (off + c) whose relative part c is
		// a candidate too adds nothing
		{
			isCand := map[string]bool{}
			for _, x := range newIdx {
				isCand[x.String()] = true
			}
			var keep []*Term
			for _, x := range newIdx {
				if (x.Op == "+" || x.Op == "bvadd") && len(x.Args) == 2 && isCand[x.Args[1].String()] {
					a0 := x.Args[0]
					isOff := func(t *Term) bool {
						return (t.Op == "var" || t.Op == "app") && (strings.Contains(t.Name, ".off") || strings.HasPrefix(t.Name, "appoff"))
					}
					if isOff(a0) {
						continue // off + c
					}
					if (a0.Op == "+" || a0.Op == "bvadd") && len(a0.Args) == 2 && isOff(a0.Args[0]) {
						continue // (off + L) + c: the relative index L + c is a candidate of its own
					}
				}
				keep = append(keep, x)
			}
			newIdx = keep
		}
		if os.Getenv("GOCV_DEEPINST") != "" && o.DeepInst {
			fmt.Fprintf(os.Stderr, "deepinst %s: %d pattern instances, new index terms:\n", o.Name, len(patInsts))
			for _, x := range newIdx {
				fmt.Fprintf(os.Stderr, "   %s\n", x)
			}
		}
		if len(newIdx) > 0 && o.DeepInst {
			cands := append([]*Term{}, newIdx...)
			if len(newIdx) > 0 && newIdx[0].Sort == SInt {
				cands = append(cands, IntC(0)) // first elements are what range assumptions are stated over
			}
			for _, sk := range sks {
				if sk.Op == "var" && strings.HasPrefix(sk.Name, "sk!") {
					cands = append(cands, sk)
				}
			}
			have := map[string]bool{}
			for _, x := range insts {
				have[x.String()] = true
			}
			n3 := 0
			for _, h := range o.Hyps {
				if len(patternForalls(h)) > 0 {
					continue
				}
				for _, x := range instantiateAtCap(h, cands, 1, 400) {
					if k := x.String(); !have[k] && n3 < 1500 {
						have[k] = true
						insts = append(insts, x)
						n3++
					}
				}
			}
		}
	}
	o.Hyps = append(hyps, insts...)
}

// patternForalls: the (possibly guarded) universally quantified facts inside h that have one bound variable i and
// the single pattern (select A i) with A a ground term.
func patternForalls(h *Term) []*Term {
	switch h.Op {
	case "and":
		var out []*Term
		for _, a := range h.Args {
			out = append(out, patternForalls(a)...)
		}
		return out
	case "=>":
		var out []*Term
		for _, x := range patternForalls(h.Args[1]) {
			out = append(out, Implies(h.Args[0], x))
		}
		return out
	case "forall":
		if len(h.Bound) == 1 && len(h.Pats) == 1 && len(h.Pats[0]) == 1 {
			p := h.Pats[0][0]
			if p.Op == "select" && len(p.Args) == 2 && p.Args[1].Op == "var" && p.Args[1].Name == h.Bound[0].Name && !mentionsVar(p.Args[0], h.Bound[0].Name) {
				return []*Term{h}
			}
		}
	}
	return nil
}

func mentionsVar(t *Term, name string) bool {
	if t.Op == "var" && t.Name == name {
		return true
	}
	for _, a := range t.Args {
		if mentionsVar(a, name) {
			return true
		}
	}
	return false
}

// instantiateAt returns instances of (possibly guarded) universally quantified h at skolems of matching sorts.
func instantiateAt(h *Term, sks []*Term, depth int) []*Term {
	return instantiateAtCap(h, sks, depth, 64)
}

func instantiateAtCap(h *Term, sks []*Term, depth int, limit int) []*Term {
	if depth > 2 {
		return nil
	}
	switch h.Op {
	case "and":
		var out []*Term
		for _, a := range h.Args {
			out = append(out, instantiateAtCap(a, sks, depth, limit)...)
		}
		return out
	case "=>":
		var out []*Term
		for _, x := range instantiateAtCap(h.Args[1], sks, depth, limit) {
			out = append(out, Implies(h.Args[0], x))
		}
		return out
	case "forall":
		if len(patternForalls(h)) == 1 && depth == 0 {
			// definitions of built arrays are instantiated by their pattern (shape), not at every term of the sort
			return nil
		}
		// candidate lists per bound variable
		cands := make([][]*Term, len(h.Bound))
		for i, v := range h.Bound {
			for _, sk := range sks {
				if sk.Sort == v.Sort {
					cands[i] = append(cands[i], sk)
				}
			}
			if len(cands[i]) == 0 {
				return nil
			}
		}
		var out []*Term
		var rec func(i int, m map[string]*Term)
		rec = func(i int, m map[string]*Term) {
			if len(out) > limit {
				return
			}
			if i == len(h.Bound) {
				mm := map[string]*Term{}
				for k, v := range m {
					mm[k] = v
				}
				inst := subst(h.Args[0], mm)
				out = append(out, inst)
				out = append(out, instantiateAtCap(inst, sks, depth+1, limit)...)
				return
			}
			for _, cd := range cands[i] {
				m[h.Bound[i].Name] = cd
				rec(i+1, m)
			}
		}
		rec(0, map[string]*Term{})
		return out
	}
	return nil
}

// relevant keeps the hypotheses connected to the goal through shared symbols (dropping hypotheses only weakens
// the premises, so this is sound); allocation counters do not count as a connection.
func relevant(o *Obligation) {
	if o.Cover {
		return
	}
	defByName := map[string]*Def{}
	for _, d := range o.Defs {
		defByName[d.Name] = d
	}
	symsOf := func(t *Term) map[string]bool {
		m := map[string]symInfo{}
		collectSyms(t, map[string]bool{}, m, map[Sort]bool{})
		out := map[string]bool{}
		var expand func(n string)
		expand = func(n string) {
			if out[n] || strings.HasPrefix(n, "$alloc") {
				return
			}
			out[n] = true
			if d, ok := defByName[n]; ok {
				dm := map[string]symInfo{}
				collectSyms(d.T, map[string]bool{}, dm, map[Sort]bool{})
				for k := range dm {
					expand(k)
				}
			}
		}
		for n := range m {
			expand(n)
		}
		return out
	}
	hasQ := func(t *Term) bool {
		found := false
		var walk func(x *Term)
		walk = func(x *Term) {
			if x.Op == "forall" || x.Op == "exists" {
				found = true
			}
			for _, a := range x.Args {
				if !found {
					walk(a)
				}
			}
		}
		walk(t)
		return found
	}
	// all ground hypotheses are kept (a path may be infeasible for reasons unrelated to the goal); quantified
	// hypotheses are kept only when they are connected to the goal or to a ground hypothesis
	cone := symsOf(o.Goal)
	keep := make([]bool, len(o.Hyps))
	hs := make([]map[string]bool, len(o.Hyps))
	for i, h := range o.Hyps {
		hs[i] = symsOf(h)
		if !hasQ(h) {
			keep[i] = true
			for s := range hs[i] {
				cone[s] = true
			}
		}
	}
	for changed := true; changed; {
		changed = false
		for i := range o.Hyps {
			if keep[i] {
				continue
			}
			hit := len(hs[i]) == 0
			for s := range hs[i] {
				if cone[s] {
					hit = true
					break
				}
			}
			if hit {
				keep[i] = true
				changed = true
				for s := range hs[i] {
					cone[s] = true
				}
			}
		}
	}
	var out []*Term
	for i, h := range o.Hyps {
		if keep[i] {
			out = append(out, h)
		}
	}
	o.Hyps = out
}

func discharge(o *Obligation, dir string, axioms []*Term, secs int, thorough bool) {
	if !o.lifted {
		o.lifted = true
		for i, h := range o.Hyps {
			o.Hyps[i] = liftTyinv(h, true)
		}
		if o.Cover {
			o.Goal = liftTyinv(o.Goal, true)
		} else {
			o.Goal = stripTyinv(o.Goal)
		}
		for i, a := range o.Axioms {
			o.Axioms[i] = liftTyinv(a, true)
		}
	}
	shape(o)
	relevant(o)
	// one assertion per conjunct: the ground variant drops quantified assertions only
	{
		var flat []*Term
		var split func(t *Term)
		split = func(t *Term) {
			if t.Op == "and" {
				for _, a := range t.Args {
					split(a)
				}
				return
			}
			flat = append(flat, t)
		}
		for _, t := range o.Hyps {
			split(t)
		}
		o.Hyps = flat
	}
	h := sha1.Sum([]byte(o.Name))
	base := sanitize(o.Name)
	if len(base) > 120 {
		base = base[:120]
	}
	file := filepath.Join(dir, fmt.Sprintf("%s-%x.smt2", base, h[:4]))
	if _, err := writeSMT(o, file, axioms, false, nil); err != nil {
		o.Verdict = "undecided"
		o.Model = "cannot write SMT file: " + err.Error()
		return
	}
	o.SMTFile = file
	if fi, err := os.Stat(file); err == nil && fi.Size() > 4<<20 {
		o.Verdict = "undecided"
		o.Model = fmt.Sprintf("verification condition too large (%d bytes): abstract first", fi.Size())
		return
	}
	// stage 1: z3-new alone, short
	ctx := context.Background()
	decided := func(r solveResult) bool { return r.answer == "sat" || r.answer == "unsat" }
	if o.Cover {
		// a vacuity guard only matters when the hypotheses are refuted, and that is quick when it happens; finding a
		// model of quantified hypotheses is not worth the budget
		r := runSolver(ctx, solvers[0], file, min(secs, 3))
		o.Millis = r.millis
		switch {
		case r.answer == "unsat" && o.CoverBase != nil && coverBaseUnsat(o, dir, axioms, min(secs, 3)):
			o.Verdict = "discharged"
			o.Backend = r.backend + "(dead path)"
		case r.answer == "unsat":
			o.Verdict = "refuted"
			o.Backend = r.backend
			o.Model = "hypotheses are contradictory (vacuous contract)"
		case r.answer == "sat":
			o.Verdict = "discharged"
			o.Backend = r.backend
		default:
			o.Verdict = "discharged"
			o.Backend = "inconclusive(" + r.answer + ")"
		}
		return
	}
	// stage 1: z3-new alone, short; alongside it the same condition without its quantified hypotheses (see below)
	var first solveResult
	var results []solveResult
	{
		c1, cancel1 := context.WithCancel(ctx)
		ch := make(chan solveResult, 2)
		n := 1
		go func() { ch <- runSolver(c1, solvers[0], file, min(secs, 3)) }()
		started := false
		timer := time.After(400 * time.Millisecond)
		for got := 0; got < n; {
			select {
			case r := <-ch:
				got++
				results = append(results, r)
				if decided(r) && !decided(first) {
					first = r
					cancel1()
				}
			case <-timer:
				// not decided at once: start the ground variant alongside
				if started || o.Cover {
					continue
				}
				started = true
				if gf := groundVariant(file); gf != "" {
					n++
					go func() {
						defer os.Remove(gf)
						r := runSolver(c1, solvers[0], gf, min(secs, 3))
						r.backend += "(ground)"
						if r.answer != "unsat" {
							r.answer = "unknown"
						}
						ch <- r
					}()
				}
			}
		}
		cancel1()
	}
	if !decided(first) {
		var wg sync.WaitGroup
		var mu sync.Mutex
		cctx, cancel := context.WithCancel(ctx)
		// the same condition without its quantified hypotheses (those were already instantiated at the index and
		// skolem terms of the goal): a weaker set of hypotheses, so only "unsat" counts
		if gf := groundVariant(file); gf != "" && !o.Cover {
			wg.Add(1)
			go func() {
				defer wg.Done()
				defer os.Remove(gf)
				r := runSolver(cctx, solvers[0], gf, secs)
				r.backend += "(ground)"
				if r.answer != "unsat" {
					r.answer = "unknown"
				}
				mu.Lock()
				results = append(results, r)
				if decided(r) {
					cancel()
				}
				mu.Unlock()
			}()
		}
		for _, sp := range solvers {
			wg.Add(1)
			go func(sp solverSpec) {
				defer wg.Done()
				r := runSolver(cctx, sp, file, secs)
				mu.Lock()
				results = append(results, r)
				if decided(r) {
					cancel()
				}
				mu.Unlock()
			}(sp)
		}
		wg.Wait()
		cancel()
	}
	// stage 3 (quick tier only): nobody decided within the budget. Before calling that a violation, give the two
	// most successful configurations three times the budget: an alarm on a loaded machine costs more than a minute
	anyDecided := false
	for _, r := range results {
		if decided(r) {
			anyDecided = true
		}
	}
	if !anyDecided && !thorough && !o.Cover && os.Getenv("GOCV_NO_RETRY") == "" {
		var wg sync.WaitGroup
		var mu sync.Mutex
		cctx, cancel := context.WithCancel(ctx)
		run := func(f string, tag string, ground bool) {
			defer wg.Done()
			r := runSolver(cctx, solvers[0], f, secs*3)
			r.backend += tag
			if ground && r.answer != "unsat" {
				r.answer = "unknown"
			}
			mu.Lock()
			results = append(results, r)
			if decided(r) {
				cancel()
			}
			mu.Unlock()
		}
		wg.Add(1)
		go run(file, "(retry)", false)
		if gf := groundVariant(file); gf != "" {
			wg.Add(1)
			go func() {
				defer os.Remove(gf)
				run(gf, "(ground,retry)", true)
			}()
		}
		wg.Wait()
		cancel()
	}
	var total int64
	var best *solveResult
	for i := range results {
		r := &results[i]
		total += r.millis
		if decided(*r) && (best == nil || (best.answer != "unsat" && r.answer == "unsat")) {
			best = r
		}
	}
	o.Millis = total
	if o.Cover {
		// expected satisfiable: vacuity guard
		switch {
		case best != nil && best.answer == "unsat" && o.CoverBase != nil && coverBaseUnsat(o, dir, axioms, secs):
			// the path itself is infeasible: nothing the assumption could make vacuous
			o.Verdict = "discharged"
			o.Backend = best.backend + "(dead path)"
		case best != nil && best.answer == "unsat":
			o.Verdict = "refuted"
			o.Backend = best.backend
			o.Model = "hypotheses are contradictory (vacuous contract)"
		case best != nil:
			o.Verdict = "discharged"
			o.Backend = best.backend
		default:
			o.Verdict = "discharged"
			o.Backend = "inconclusive(" + results[0].answer + ")"
		}
		return
	}
	switch {
	case best != nil && best.answer == "unsat":
		o.Verdict = "discharged"
		o.Backend = best.backend
	case best != nil && best.answer == "sat":
		o.Verdict = "refuted"
		o.Backend = best.backend
		o.Model = best.output
	default:
		o.Verdict = "undecided"
		var parts []string
		for _, r := range results {
			parts = append(parts, r.backend+":"+r.answer)
		}
		o.Model = strings.Join(parts, " ")
	}
}

// groundVariant writes a copy of an SMT file without the quantified hypotheses (the goal, the last assertion, is
// kept as it is). Returns "" when there is nothing to drop.
func groundVariant(file string) string {
	data, err := os.ReadFile(file)
	if err != nil {
		return ""
	}
	lines := strings.Split(string(data), "\n")
	last := -1
	for i, l := range lines {
		if strings.HasPrefix(l, "(assert") {
			last = i
		}
	}
	var out []string
	dropped := 0
	for i, l := range lines {
		if i != last && strings.HasPrefix(l, "(assert") && (strings.Contains(l, "(forall ") || strings.Contains(l, "(exists ")) {
			dropped++
			continue
		}
		out = append(out, l)
	}
	if dropped == 0 {
		return ""
	}
	gf := strings.TrimSuffix(file, ".smt2") + ".ground.smt2"
	if os.WriteFile(gf, []byte(strings.Join(out, "\n")), 0o644) != nil {
		return ""
	}
	return gf
}

// coverBaseUnsat: is the path condition before the assumption already contradictory?
func coverBaseUnsat(o *Obligation, dir string, axioms []*Term, secs int) bool {
	b := &Obligation{Name: o.Name + "$base", Kind: "cover", Goal: TTrue, Hyps: o.CoverBase, Cover: true, Func: o.Func, Defs: o.Defs, Extra: o.Extra, Axioms: o.Axioms}
	h := sha1.Sum([]byte(b.Name))
	file := filepath.Join(dir, fmt.Sprintf("%s-%x.smt2", sanitize(b.Name)[:min(100, len(sanitize(b.Name)))], h[:4]))
	if _, err := writeSMT(b, file, axioms, false, nil); err != nil {
		return false
	}
	r := runSolver(context.Background(), solvers[0], file, secs)
	return r.answer == "unsat"
}

func sanitize(s string) string {
	var sb strings.Builder
	for _, c := range s {
		if c >= 'a' && c <= 'z' || c >= 'A' && c <= 'Z' || c >= '0' && c <= '9' || c == '.' || c == '-' || c == '_' {
			sb.WriteRune(c)
		} else {
			sb.WriteRune('_')
		}
	}
	return sb.String()
}

// dischargeAll runs obligations in parallel.
func dischargeAll(obls []*Obligation, dir string, axiomsOf func(o *Obligation) []*Term, secs int, thorough bool, par int) {
	os.MkdirAll(dir, 0o755)
	sem := make(chan struct{}, par)
	var wg sync.WaitGroup
	for _, o := range obls {
		wg.Add(1)
		sem <- struct{}{}
		go func(o *Obligation) {
			defer wg.Done()
			defer func() { <-sem }()
			t0 := time.Now()
			discharge(o, dir, axiomsOf(o), secs, thorough)
			if os.Getenv("GOCV_TIMES") != "" {
				fmt.Fprintf(os.Stderr, "TIME %6d ms  %s  [%s]\n", time.Since(t0).Milliseconds(), o.Name, o.Backend)
			}
		}(o)
	}
	wg.Wait()
}

// getValues re-runs a refuted obligation asking for the values of the given terms.
func getValues(o *Obligation, axioms []*Term, terms []*Term, names []string, secs int) map[string]string {
	f, err := os.CreateTemp("", "gocv-gv-*.smt2")
	if err != nil {
		return nil
	}
	f.Close()
	defer os.Remove(f.Name())
	if _, err := writeSMT(o, f.Name(), axioms, false, terms); err != nil {
		return nil
	}
	for _, sp := range solvers {
		r := runSolver(context.Background(), sp, f.Name(), secs)
		if r.answer != "sat" {
			continue
		}
		vals := parseGetValue(r.output, len(terms))
		if vals == nil {
			continue
		}
		out := map[string]string{}
		for i, n := range names {
			if i < len(vals) {
				out[n] = vals[i]
			}
		}
		return out
	}
	return nil
}

// parseGetValue extracts the value s-expressions of a (get-value) answer.
func parseGetValue(out string, n int) []string {
	k := strings.Index(out, "((")
	if k < 0 {
		return nil
	}
	s := out[k:]
	// parse outer list of pairs
	var vals []string
	depth := 0
	start := -1
	for i := 0; i < len(s); i++ {
		switch s[i] {
		case '(':
			depth++
			if depth == 2 {
				start = i
			}
		case ')':
			if depth == 2 && start >= 0 {
				pair := s[start+1 : i]
				// split term / value: value is the last balanced s-expr
				v := lastSexpr(pair)
				vals = append(vals, v)
				start = -1
			}
			depth--
			if depth == 0 {
				return vals
			}
		}
	}
	return vals
}

func lastSexpr(s string) string {
	s = strings.TrimSpace(s)
	if s == "" {
		return s
	}
	if s[len(s)-1] != ')' {
		k := strings.LastIndexAny(s, " \t\n")
		return s[k+1:]
	}
	depth := 0
	for i := len(s) - 1; i >= 0; i-- {
		switch s[i] {
		case ')':
			depth++
		case '(':
			depth--
			if depth == 0 {
				return s[i:]
			}
		}
	}
	return s
}

func sortObls(obls []*Obligation) {
	sort.SliceStable(obls, func(i, j int) bool { return obls[i].Name < obls[j].Name })
}

// elementIndexTerms collects ground terms t occurring as (select A (+ off t)) outside quantifiers: the indices at
// which the code (or the goal) reads slice elements.
func elementIndexTerms(ts []*Term, max int) []*Term {
	var out []*Term
	seen := map[string]bool{}
	var walk func(t *Term)
	walk = func(t *Term) {
		if t == nil || len(out) >= max {
			return
		}
		if t.Op == "forall" || t.Op == "exists" {
			return
		}
		if t.Op == "select" && len(t.Args) == 2 {
			idx := t.Args[1]
			if (idx.Op == "+" || idx.Op == "bvadd") && len(idx.Args) == 2 {
				c := idx.Args[1]
				if c.Op != "int" && c.Op != "bvc" && !seen[c.String()] {
					seen[c.String()] = true
					out = append(out, c)
				}
				// an element of a re-sliced slice is read at (off + L) + k: the index relative to the underlying
				// slice, L + k, is an instantiation point for facts stated over that slice
				if p0 := idx.Args[0]; (p0.Op == "+" || p0.Op == "bvadd") && len(p0.Args) == 2 && hasSkolem(c) {
					rel := &Term{Op: idx.Op, Sort: idx.Sort, Args: []*Term{p0.Args[1], c}}
					if !seen[rel.String()] {
						seen[rel.String()] = true
						out = append(out, rel)
					}
				}
				// the absolute index too (quantified facts about freshly built arrays speak of absolute indices)
				if hasSkolem(idx) && !seen[idx.String()] {
					seen[idx.String()] = true
					out = append(out, idx)
				}
			}
		}
		for _, a := range t.Args {
			walk(a)
		}
	}
	for _, t := range ts {
		walk(t)
	}
	return out
}

// rowLike: the array term can denote the element row of a memory (not a field, ghost or lock array).
func rowLike(t *Term) bool {
	for t.Op == "store" {
		t = t.Args[0]
	}
	if t.Op == "var" {
		for _, p := range []string{"F$", "G$", "L$", "E$", "V$", "P$"} {
			if strings.HasPrefix(t.Name, p) {
				return false
			}
		}
	}
	return true
}

func hasSkolem(t *Term) bool {
	if t.Op == "var" && strings.HasPrefix(t.Name, "sk!") {
		return true
	}
	for _, a := range t.Args {
		if hasSkolem(a) {
			return true
		}
	}
	return false
}

// rowFrame: row na equals row old outside [lo, hi) (a havocked slice range, "modifies s[a:b]").
type rowFrame struct{ na, old, lo, hi *Term }

// rowFrameInstances: ground instances of "bytes$(na, o, n) = bytes$(old, o, n) when [o, o+n) misses [lo, hi)".
func rowFrameInstances(terms []*Term, frames []rowFrame, defs map[string]*Def) []*Term {
	if len(frames) == 0 {
		return nil
	}
	type bt struct{ x, o, n *Term }
	var bys []bt
	seen := map[string]bool{}
	var walk func(t *Term, inQ bool)
	walk = func(t *Term, inQ bool) {
		if t.Op == "forall" || t.Op == "exists" {
			inQ = true
		}
		if !inQ && t.Op == "app" && t.Name == "bytes$" {
			k := t.String()
			if !seen[k] {
				seen[k] = true
				bys = append(bys, bt{t.Args[0], t.Args[1], t.Args[2]})
			}
		}
		for _, a := range t.Args {
			walk(a, inQ)
		}
	}
	for _, t := range terms {
		walk(t, false)
	}
	var out []*Term
	for round := 0; round < 10 && len(bys) > 0 && len(out) < 400; round++ {
		var nb []bt
		for _, b := range bys {
			// peel one store off a memory: select(store(M, b1, r), idx) is r if b1 = idx, else select(M, idx)
			if b.x.Op == "select" && len(b.x.Args) == 2 {
				m := b.x.Args[0]
				if m.Op == "var" {
					if d, ok := defs[m.Name]; ok {
						m = d.T
					}
				}
				if m.Op == "store" && !termEq(m.Args[1], b.x.Args[1]) {
					idx := b.x.Args[1]
					same := Eq(m.Args[1], idx)
					inner := Select(m.Args[0], idx)
					cur := App("bytes$", SBytes, b.x, b.o, b.n)
					t1 := App("bytes$", SBytes, m.Args[2], b.o, b.n)
					t2 := App("bytes$", SBytes, inner, b.o, b.n)
					out = append(out, Implies(same, Eq(cur, t1)), Implies(Not(same), Eq(cur, t2)))
					for _, nt := range []*Term{t1, t2} {
						if k := nt.String(); !seen[k] {
							seen[k] = true
							nb = append(nb, bt{nt.Args[0], b.o, b.n})
						}
					}
				}
			}
			for _, f := range frames {
				if !termEq(resolveRow(b.x, defs), f.na) {
					continue
				}
				var outside *Term
				if b.o.Sort.IsBV() {
					outside = Or(bvCmp("bvsle", bvBin("bvadd", b.o, b.n), f.lo), bvCmp("bvsle", f.hi, b.o))
				} else {
					outside = Or(ILe(IAdd(b.o, b.n), f.lo), ILe(f.hi, b.o))
				}
				nt := App("bytes$", SBytes, f.old, b.o, b.n)
				out = append(out, Implies(outside, Eq(App("bytes$", SBytes, b.x, b.o, b.n), nt)))
				k := nt.String()
				if !seen[k] {
					seen[k] = true
					nb = append(nb, bt{f.old, b.o, b.n})
				}
			}
		}
		bys = nb
	}
	return out
}

// resolveRow: select(M, b) where M is a named store(M0, b, row) denotes row.
func resolveRow(t *Term, defs map[string]*Def) *Term {
	for i := 0; i < 8; i++ {
		if t.Op != "select" || len(t.Args) != 2 {
			return t
		}
		m := t.Args[0]
		if m.Op == "var" {
			if d, ok := defs[m.Name]; ok {
				m = d.T
			}
		}
		if m.Op != "store" {
			return t
		}
		n := Select(m, t.Args[1])
		if termEq(n, t) {
			return t
		}
		t = n
	}
	return t
}
