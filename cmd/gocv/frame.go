package main

// Frame obligations: everything outside the modifies clauses is unchanged at every return.

import (
	"fmt"
	"go/token"
	"go/types"
	"sort"
	"strings"
)

type frameAllow struct {
	fieldRefs map[string][]*Term    // heap key prefix -> refs whose field may change
	ranges    map[string][]memRange // mem key -> ranges
	all       bool
	ghostVars map[string]bool
	locks     bool
}

type memRange struct{ base, lo, hi *Term }

// frameAllowed evaluates the modifies clauses in the entry state.
func (c *FCtx) frameAllowed(e *Env) *frameAllow {
	fa := &frameAllow{fieldRefs: map[string][]*Term{}, ranges: map[string][]memRange{}, ghostVars: map[string]bool{}}
	se := c.specEnvFor(e, c.entry.clone(), c.entry, nil)
	for _, m := range c.Contract.Modifies {
		for _, item := range splitTopLevel(m.Text, ',') {
			if item == "" || item == "nothing" {
				continue
			}
			if item == "heap" {
				fa.all = true
				continue
			}
			if item == "allbytes" {
				fa.ghostVars[c.memKey(types.Typ[types.Uint8])] = true
				continue
			}
			if strings.HasSuffix(item, ".*") {
				ex, err := parseSpec(strings.TrimSuffix(item, ".*"))
				if err != nil {
					panic(specFail(err.Error()))
				}
				obj := se.eval(ex)
				owner := obj.T
				if p, ok := owner.Underlying().(*types.Pointer); ok {
					owner = p.Elem()
				}
				ref := obj.V.(*Term)
				fa.fieldRefs["F$"+structKey(owner)+"."] = append(fa.fieldRefs["F$"+structKey(owner)+"."], ref)
				fa.fieldRefs["G$"+structKey(owner)+"."] = append(fa.fieldRefs["G$"+structKey(owner)+"."], ref)
				// embedded arrays
				if s := structOf(owner); s != nil {
					for i := 0; i < s.NumFields(); i++ {
						if a, ok := s.Field(i).Type().Underlying().(*types.Array); ok {
							sl := c.loadField(se.Cur, ref, owner, s.Field(i)).(*SliceV)
							k := c.memKey(a.Elem())
							fa.ranges[k] = append(fa.ranges[k], memRange{sl.Base, c.idxC(0), c.idxC(a.Len())})
						}
					}
				}
				continue
			}
			if strings.HasSuffix(item, "[*]") {
				item = strings.TrimSuffix(item, "[*]") + "[:]"
			}
			ex, err := parseSpec(item)
			if err != nil {
				panic(specFail(err.Error()))
			}
			switch ex.Kind {
			case "sel":
				obj := se.eval(ex.Args[0])
				owner := obj.T
				if owner == nil {
					panic(specFail("modifies: typed object expected in " + item))
				}
				if p, ok := owner.Underlying().(*types.Pointer); ok {
					owner = p.Elem()
				}
				ref, ok := obj.V.(*Term)
				if !ok {
					panic(specFail("modifies: object reference expected in " + item))
				}
				// array field: range over the sub-object
				if s := structOf(owner); s != nil {
					if path := findFieldPath(s, ex.Name); len(path) == 1 {
						if a, ok := path[0].Type().Underlying().(*types.Array); ok {
							sl := c.loadField(se.Cur, ref, owner, path[0]).(*SliceV)
							k := c.memKey(a.Elem())
							fa.ranges[k] = append(fa.ranges[k], memRange{sl.Base, c.idxC(0), c.idxC(a.Len())})
							continue
						}
					}
				}
				fa.fieldRefs["F$"+structKey(owner)+"."+ex.Name] = append(fa.fieldRefs["F$"+structKey(owner)+"."+ex.Name], ref)
				fa.fieldRefs["G$"+structKey(owner)+"."+ex.Name] = append(fa.fieldRefs["G$"+structKey(owner)+"."+ex.Name], ref)
			case "slice", "index":
				a := se.eval(ex.Args[0])
				sl, ok := se.asSlice(a)
				if !ok {
					panic(specFail("modifies: not a slice: " + item))
				}
				lo := c.idxC(0)
				hi := sl.Len
				if ex.Kind == "index" {
					lo = se.idx(se.eval(ex.Args[1]))
					hi = c.iadd(lo, c.idxC(1))
				} else {
					if ex.Args[1] != nil {
						lo = se.idx(se.eval(ex.Args[1]))
					}
					if ex.Args[2] != nil {
						hi = se.idx(se.eval(ex.Args[2]))
					}
				}
				k := c.memKey(sl.Elem)
				fa.ranges[k] = append(fa.ranges[k], memRange{sl.Base, c.iadd(sl.Off, lo), c.iadd(sl.Off, hi)})
			case "id":
				fa.ghostVars["G$"+ex.Name] = true
			case "call":
				fa.locks = true
			default:
				panic(specFail("modifies: unsupported item " + item))
			}
		}
	}
	return fa
}

func (c *FCtx) checkFrame(e *Env, st *State, tag string, pos token.Pos) {
	if c.Contract == nil || len(c.Contract.Modifies) == 0 {
		return
	}
	fa := c.frameAllowed(e)
	if fa.all {
		return
	}
	for _, h := range st.hav {
		for _, p := range h.prefixes {
			if p == "*" {
				c.oblige(st, "frame", fmt.Sprintf("frame(heap)#%s", tag), pos, TFalse, "an unmodelled construct may have written the whole heap; modifies does not allow it")
				return
			}
			if fa.ghostVars[p] {
				continue
			}
			c.oblige(st, "frame", fmt.Sprintf("frame(%s via call)#%s", p, tag), pos, TFalse, "an un-contracted callee may write "+p+" at objects the modifies clause does not name")
		}
	}
	alloc0 := Var("$alloc@pre", SInt)
	var keys []string
	for k := range st.heap {
		keys = append(keys, k)
	}
	sort.Strings(keys)
	for _, k := range keys {
		if k == "$alloc" || k == "$epoch" || strings.HasPrefix(k, "L$") || strings.HasPrefix(k, "E$") {
			continue
		}
		fin := st.heap[k]
		init := Var(k+"@pre", fin.Sort)
		if termEq(fin, init) {
			continue
		}
		if fa.ghostVars[k] {
			continue
		}
		if strings.HasPrefix(k, "M$") {
			b := Var(c.freshName("b"), SInt)
			i := Var(c.freshName("i"), c.idxSort())
			var allowed []*Term
			for mk, rs := range fa.ranges {
				if k == mk || strings.HasPrefix(k, mk+".") {
					for _, r := range rs {
						allowed = append(allowed, And(Eq(b, r.base), c.ile(r.lo, i), c.ilt(i, r.hi)))
					}
				}
			}
			g := Forall([]*Term{b, i}, Implies(And(ILt(b, alloc0), IGe(b, IntC(0)), Not(Or(allowed...))),
				Eq(Select(Select(fin, b), i), Select(Select(init, b), i))))
			c.oblige(st, "frame", fmt.Sprintf("frame(%s)#%s", k, tag), pos, g, "only locations in the modifies clause change")
			continue
		}
		r := Var(c.freshName("r"), SInt)
		var allowed []*Term
		for fk, refs := range fa.fieldRefs {
			if k == fk || strings.HasPrefix(k, fk+".") || (strings.HasSuffix(fk, ".") && strings.HasPrefix(k, fk)) {
				for _, ref := range refs {
					allowed = append(allowed, Eq(r, ref))
				}
			}
		}
		guard := And(ILt(r, alloc0), IGe(r, IntC(0)))
		if strings.HasPrefix(k, "V$") {
			guard = Eq(r, IntC(0))
		}
		g := Forall([]*Term{r}, Implies(And(guard, Not(Or(allowed...))), Eq(Select(fin, r), Select(init, r))))
		c.oblige(st, "frame", fmt.Sprintf("frame(%s)#%s", k, tag), pos, g, "only locations in the modifies clause change")
	}
}
