package main

import (
	"encoding/json"
	"flag"
	"fmt"
	"os"
	"path/filepath"
	"sort"
	"strconv"
	"strings"
	"time"
)

type Options struct {
	Repo     string
	Out      string
	Prop     string
	Tier     string
	Evidence string
	Secs     int
	Par      int
	Only     string
	Verbose  bool
	Findings string
	Seed     int
	ShowModel bool
	Why       string
}

func main() {
	if len(os.Args) < 2 {
		fmt.Fprintln(os.Stderr, "usage: gocv check|list|smoke ...")
		os.Exit(2)
	}
	cmd := os.Args[1]
	fs := flag.NewFlagSet(cmd, flag.ExitOnError)
	var o Options
	fs.StringVar(&o.Repo, "repo", "/repo", "repository root")
	fs.StringVar(&o.Out, "out", "/verif/out", "output directory for SMT files")
	fs.StringVar(&o.Prop, "prop", "", "property id")
	fs.StringVar(&o.Tier, "tier", "quick", "quick|thorough")
	fs.StringVar(&o.Evidence, "evidence", "", "evidence file to write")
	fs.IntVar(&o.Secs, "secs", 0, "solver budget per obligation (seconds)")
	fs.IntVar(&o.Par, "par", 12, "parallel obligations")
	fs.StringVar(&o.Only, "only", "", "restrict to contracts whose key contains this string")
	fs.BoolVar(&o.Verbose, "v", false, "verbose")
	fs.BoolVar(&o.ShowModel, "model", false, "print input values of refuted obligations")
	fs.StringVar(&o.Why, "why", "", "effects: print a call chain to a direct writer of this key")
	fs.StringVar(&o.Findings, "findings", "/verif/known_findings.txt", "known findings file")
	fs.Parse(os.Args[2:])
	if s := os.Getenv("VERIF_SEED"); s != "" {
		o.Seed, _ = strconv.Atoi(s)
	}
	if o.Secs == 0 {
		o.Secs = 15
		if o.Tier == "thorough" {
			o.Secs = 60
		}
	}
	switch cmd {
	case "check":
		os.Exit(runCheck(&o))
	case "list":
		os.Exit(runList(&o))
	case "baseline":
		os.Exit(runBaseline(&o))
	case "effects":
		w, err := loadAll(&o)
		if err != nil {
			fmt.Println("ERROR", err)
			os.Exit(2)
		}
		g := w.graph()
		for _, n := range g.nodes {
			if o.Only != "" && !strings.Contains(n.name, o.Only) {
				continue
			}
			var ws, ls, cs []string
			for k := range n.eff.Writes {
				ws = append(ws, k)
			}
			for k := range n.eff.Locks {
				ls = append(ls, k)
			}
			for c := range n.callees {
				cs = append(cs, c.name)
			}
			sort.Strings(ws)
			sort.Strings(ls)
			sort.Strings(cs)
			if o.Why != "" {
				// shortest call chain to a direct writer of the key
				prev := map[*cgNode]*cgNode{n: nil}
				queue := []*cgNode{n}
				var hit *cgNode
				for len(queue) > 0 && hit == nil {
					x := queue[0]
					queue = queue[1:]
					if x.direct.Writes[o.Why] || x.direct.Locks[o.Why] {
						hit = x
						break
					}
					for c := range x.callees {
						if _, seen := prev[c]; !seen {
							prev[c] = x
							queue = append(queue, c)
						}
					}
				}
				var chain []string
				for x := hit; x != nil; x = prev[x] {
					chain = append([]string{x.name}, chain...)
				}
				fmt.Printf("%s reaches %s via: %s\n", n.name, o.Why, strings.Join(chain, " -> "))
				continue
			}
			fmt.Printf("%s\n  writes: %v\n  locks: %v\n  callees: %v\n", n.name, ws, ls, cs)
		}
		os.Exit(0)
	default:
		fmt.Fprintln(os.Stderr, "unknown command", cmd)
		os.Exit(2)
	}
}

func loadAll(o *Options) (*World, error) {
	w, err := loadWorld(o.Repo)
	if err != nil {
		return nil, err
	}
	w.Specs = newSpecWorld()
	files := w.contractFiles()
	if len(files) == 0 {
		return nil, fmt.Errorf("no contract files (zz_contracts_verif.go) found under %s with -tags verif", o.Repo)
	}
	for _, f := range files {
		if err := w.Specs.loadFile(f); err != nil {
			return nil, err
		}
	}
	return w, nil
}

func runList(o *Options) int {
	w, err := loadAll(o)
	if err != nil {
		fmt.Fprintln(os.Stderr, "ERROR", err)
		return 2
	}
	for _, c := range w.Specs.Contracts {
		fmt.Printf("%-9s %-60s props=%v\n", c.Kind, c.PkgName+"."+c.Key, c.Props)
	}
	return 0
}

type group struct {
	Name    string
	Members []*Obligation
}

func runCheck(o *Options) int {
	t0 := time.Now()
	loadBaseline(o)
	w, err := loadAll(o)
	if err != nil {
		fmt.Println("ERROR loading:", err)
		return 2
	}
	w.graph() // call graph and effects are built once, up front, outside any scanning mode
	loadSecs := time.Since(t0).Seconds()
	var results []*FuncResult
	nContracts := 0
	var missing []string
	for _, ct := range w.Specs.Contracts {
		if !ct.HasProp(o.Prop) {
			continue
		}
		if o.Only != "" && !strings.Contains(ct.PkgName+"."+ct.Key, o.Only) {
			continue
		}
		switch ct.Kind {
		case "func":
			if o.Prop == "C09" {
				// the lock sweep checks every lock-touching function, contracted or not
				if strings.Contains(ct.Key, "$") {
					// a function literal under contract is a unit of its own (the sweep looks at declared functions)
					if lf := w.litFunc(ct.PkgName + "." + ct.Key); lf != nil {
						nContracts++
						results = append(results, w.verifyFunc(lf, propView(ct, o.Prop), false, o.Prop))
					} else {
						missing = append(missing, ct.PkgName+"."+ct.Key)
					}
					continue
				}
				if w.Funcs[ct.PkgName+"."+ct.Key] == nil {
					missing = append(missing, ct.PkgName+"."+ct.Key)
				}
				continue
			}
			fi := w.Funcs[ct.PkgName+"."+ct.Key]
			if fi == nil {
				fi = w.litFunc(ct.PkgName + "." + ct.Key)
			}
			if fi == nil {
				// the method still exists with the other kind of receiver (T <-> *T): the contract still speaks of it
				alt := ""
				if strings.HasPrefix(ct.Key, "(*") {
					alt = "(" + ct.Key[2:]
				} else if strings.HasPrefix(ct.Key, "(") {
					alt = "(*" + ct.Key[1:]
				}
				if alt != "" {
					if afi := w.Funcs[ct.PkgName+"."+alt]; afi != nil {
						fi = afi
						fmt.Printf("note: contract %s.%s bound to %s (receiver kind changed)\n", ct.PkgName, ct.Key, alt)
					}
				}
			}
			if fi == nil {
				missing = append(missing, ct.PkgName+"."+ct.Key)
				continue
			}
			nContracts++
			defSafety := ct.PkgName != "leveldb"
			r := w.verifyFunc(fi, propView(ct, o.Prop), defSafety, o.Prop)
			results = append(results, r)
		case "lemma":
			nContracts++
			results = append(results, w.verifyLemma(ct))
		}
	}
	results = append(results, w.extraChecks(o)...)
	// collect obligations
	var all []*Obligation
	var unreachable []string
	var trusted []string
	var notes []string
	for _, r := range results {
		if r.Trusted {
			trusted = append(trusted, r.Key)
			continue
		}
		if r.OutOfReach != "" {
			unreachable = append(unreachable, r.Key+": "+r.OutOfReach)
		}
		for _, n := range r.Notes {
			notes = append(notes, r.Key+": "+n)
		}
		all = append(all, r.Obls...)
	}
	// unique names
	seen := map[string]int{}
	for _, ob := range all {
		seen[ob.Name]++
	}
	cnt := map[string]int{}
	for _, ob := range all {
		if seen[ob.Name] > 1 {
			cnt[ob.Name]++
			ob.Name = fmt.Sprintf("%s@%d", ob.Name, cnt[ob.Name])
		}
	}
	outDir := filepath.Join(o.Out, o.Prop)
	os.RemoveAll(outDir)
	os.MkdirAll(outDir, 0o755)
	axOf := func(ob *Obligation) []*Term { return ob.Axioms }
	ts := time.Now()
	dischargeAll(all, outDir, axOf, o.Secs, o.Tier == "thorough", o.Par)
	solveSecs := time.Since(ts).Seconds()
	// group by base name
	groups := map[string]*group{}
	var order []string
	for _, ob := range all {
		base := ob.Name
		if k := strings.LastIndex(base, "@"); k > 0 {
			base = base[:k]
		}
		g, ok := groups[base]
		if !ok {
			g = &group{Name: base}
			groups[base] = g
			order = append(order, base)
		}
		g.Members = append(g.Members, ob)
	}
	sort.Strings(order)
	kf := loadFindings(o.Findings)
	nOb, nDis, nCover := 0, 0, 0
	var solverMs, maxMs int64
	byBackend := map[string]int{}
	byKind := map[string]int{}
	violations := 0
	var samples []map[string]interface{}
	var failed []*group
	for _, name := range order {
		g := groups[name]
		ok := true
		for _, m := range g.Members {
			solverMs += m.Millis
			if m.Millis > maxMs {
				maxMs = m.Millis
			}
			if m.Verdict != "discharged" {
				ok = false
			}
		}
		if g.Members[0].Cover {
			nCover++
		}
		nOb++
		byKind[g.Members[0].Kind]++
		if ok {
			nDis++
			byBackend[g.Members[0].Backend]++
			if len(samples) < 12 {
				samples = append(samples, map[string]interface{}{"obligation": name, "verdict": "discharged",
					"backend": g.Members[0].Backend, "ms": g.Members[0].Millis, "smt": g.Members[0].SMTFile, "paths": len(g.Members), "clause": g.Members[0].Text})
			}
		} else {
			failed = append(failed, g)
		}
	}
	// report
	replayDir := filepath.Join(o.Out, "replay")
	os.MkdirAll(replayDir, 0o755)
	var knownHit []string
	nKnownOb := 0
	for _, g := range failed {
		if f := kf.match(o.Prop, g.Name); f != nil {
			fmt.Printf("KNOWN-FINDING: property=%s %s %s\n", o.Prop, g.Name, f.What)
			knownHit = append(knownHit, g.Name)
			nKnownOb++
			continue
		}
		violations++
		path := w.writeReplay(o, g, replayDir)
		suffix := ""
		if !replayReproduced(path) {
			suffix = " no-failing-input-found"
		}
		fmt.Printf("VIOLATION property=%s replay=%s obligation=%s%s\n", o.Prop, path, g.Name, suffix)
	}
	for _, m := range missing {
		violations++
		path := filepath.Join(replayDir, sanitize(o.Prop+"-missing-"+m)+".txt")
		os.WriteFile(path, []byte("contract refers to function "+m+" which no longer exists in /repo; its obligations cannot be generated\n"), 0o644)
		fmt.Printf("VIOLATION property=%s replay=%s obligation=%s:exists no-failing-input-found\n", o.Prop, path, m)
	}
	for _, u := range unreachable {
		violations++
		path := filepath.Join(replayDir, sanitize(o.Prop+"-outofreach-"+u)+".txt")
		if len(path) > 200 {
			path = path[:200] + ".txt"
		}
		os.WriteFile(path, []byte("function left the verified subset: "+u+"\n"), 0o644)
		fmt.Printf("VIOLATION property=%s replay=%s obligation=%s:in-reach no-failing-input-found\n", o.Prop, path, strings.SplitN(u, ":", 2)[0])
	}
	if nOb == 0 && violations == 0 {
		fmt.Printf("ERROR no obligations generated for %s\n", o.Prop)
		return 2
	}
	// thorough tier: every scenario driver mapped to an obligation of this property is also run against the real
	// code as it stands (a driver that fails has shown the property broken on a concrete history)
	var scenarioRuns []map[string]interface{}
	scenariosPassed := 0
	if o.Tier == "thorough" {
		var names []string
		for _, name := range order {
			names = append(names, name)
		}
		for _, sr := range w.runScenariosFor(o, names) {
			scenarioRuns = append(scenarioRuns, map[string]interface{}{"driver": sr.test, "obligation": sr.obligation, "failed": sr.res.Reproduced})
			if sr.res.Reproduced {
				if f := kf.matchLoose(o.Prop, sr.obligation); f != nil {
					// the driver of a listed finding reproduces it: reported once, not an alarm
					fmt.Printf("KNOWN-FINDING: property=%s %s reproduced by scenario driver %s\n", o.Prop, strings.TrimSpace(sr.obligation), sr.test)
					continue
				}
				violations++
				path := filepath.Join(replayDir, sanitize(o.Prop+"-scenario-"+sr.test)+".txt")
				os.WriteFile(path, []byte(sr.res.Text), 0o644)
				fmt.Printf("VIOLATION property=%s replay=%s obligation=%s (scenario driver %s fails on the real code)\n", o.Prop, path, sr.obligation, sr.test)
			} else if strings.Contains(sr.res.Text, "passed on the real code") {
				scenariosPassed++
			}
		}
	}
	wall := time.Since(t0).Seconds()
	if o.Evidence != "" {
		var funcs []string
		for _, r := range results {
			if !r.Trusted {
				funcs = append(funcs, r.Key+" ["+r.Mode+"]")
			}
		}
		ev := map[string]interface{}{
			"property_id": o.Prop,
			"tier":        o.Tier,
			"seed":        o.Seed,
			"level":       "proof",
			"wall_s":      wall,
			"violations":  violations,
			"coverage": map[string]interface{}{
				// obligations: those this run claims proved. An obligation listed in known_findings.txt as a recorded,
				// unrepaired defect is generated and fails as expected; it is counted apart, not among the proved ones.
				"obligations":              nOb - nKnownOb,
				"discharged":               nDis,
				"obligations_generated":    nOb,
				"obligations_failing_as_listed_known_findings": nKnownOb,
				"explanation":              proofExplanation(nKnownOb),
				"checker_cmd":              strings.Join(os.Args, " "),
				"trusted_base":             trustedBase(w, trusted),
				"functions_under_contract": funcs,
				"obligations_by_kind":      byKind,
				"discharged_by_backend":    byBackend,
				"vacuity_covers":           nCover,
				"path_instances":           len(all),
				"solver_ms_total":          solverMs,
				"solver_ms_max":            maxMs,
				"load_s":                   loadSecs,
				"solve_wall_s":             solveSecs,
				"budget_s_per_obligation":  o.Secs,
				"samples":                  samples,
				"known_findings":           knownHit,
				"notes":                    notes,
				"bounded_obligations":      []string{},
				"scenario_drivers_run":     scenarioRuns,
				"traces_validated_against_impl": scenariosPassed,
			},
			"assumptions": assumptions(w, o.Prop, results, trusted),
		}
		b, _ := json.MarshalIndent(ev, "", " ")
		os.MkdirAll(filepath.Dir(o.Evidence), 0o755)
		os.WriteFile(o.Evidence, b, 0o644)
	}
	fmt.Printf("property=%s tier=%s contracts=%d obligations=%d discharged=%d violations=%d known=%d wall=%.1fs (load %.1fs, solve %.1fs)\n",
		o.Prop, o.Tier, nContracts, nOb, nDis, violations, len(knownHit), wall, loadSecs, solveSecs)
	if o.Verbose {
		for _, g := range failed {
			for _, m := range g.Members {
				if m.Verdict != "discharged" {
					fmt.Printf("  FAILED %s [%s] %s %s\n     clause: %s\n     at %s\n", m.Name, m.Verdict, m.Backend, firstLine(m.Model), m.Text, m.Pos)
					if m.Verdict == "refuted" && o.ShowModel {
						var names []string
						for n := range m.Inputs {
							names = append(names, n)
						}
						sort.Strings(names)
						var terms []*Term
						for _, n := range names {
							terms = append(terms, m.Inputs[n])
						}
						vals := getValues(m, m.Axioms, terms, names, 10)
						for _, n := range names {
							fmt.Printf("       %s = %s\n", n, vals[n])
						}
					}
				}
			}
		}
		for _, n := range notes {
			fmt.Println("  note:", n)
		}
	}
	if violations > 0 {
		return 1
	}
	return 0
}

func firstLine(s string) string {
	if k := strings.Index(s, "\n"); k >= 0 {
		return s[:k]
	}
	return s
}

func trustedBase(w *World, trusted []string) []string {
	out := []string{
		"Go semantics as modelled by gocv (DESIGN.md 2.2)",
		"SMT solvers z3 4.8.12, z3 5.1.0, cvc5 1.0",
		"the VC generator itself (guarded by the must-fail corpus)",
	}
	for _, t := range trusted {
		out = append(out, "trusted contract (body not checked): "+t)
	}
	return out
}

func assumptions(w *World, prop string, results []*FuncResult, trusted []string) []string {
	out := []string{
		"goroutine interleavings and blocking are not modelled; a go statement has no sequenced effect",
		"signed integer overflow is not modelled in int mode (mathematical integers)",
		"memory exhaustion, GC, finalizers, time and floating point are not modelled",
	}
	seen := map[string]bool{}
	for _, r := range results {
		for _, a := range r.Assumed {
			if !seen[a] {
				seen[a] = true
				out = append(out, "assumed: "+a)
			}
		}
	}
	for _, c := range w.Specs.Contracts {
		if c.Kind == "interface" {
			out = append(out, "assumed interface contract: "+c.Key)
		}
	}
	for _, a := range w.Specs.Axioms {
		out = append(out, "axiom: "+a.Text)
	}
	for _, sf := range w.Specs.SpecFuncs {
		if sf.Extern != "" {
			out = append(out, "extern spec function (uninterpreted in SMT): "+sf.Name+" = "+sf.Extern)
		}
	}
	sort.Strings(out[3:])
	return out
}

func proofExplanation(nKnown int) string {
	s := "obligations = verification conditions generated from /repo's current source for the functions under contract (vacuity covers included) and claimed proved; discharged = those a solver answered unsat (covers: sat)."
	if nKnown > 0 {
		s += fmt.Sprintf(" %d further obligation(s) were generated and failed; each is listed in /verif/known_findings.txt as a genuine defect of the code that is recorded rather than repaired (see coverage.known_findings and the KNOWN-FINDING lines of the run); they are not counted as proved.", nKnown)
	}
	return s
}
