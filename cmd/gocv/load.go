package main

// Loading /repo with the verif tag, indexing function bodies, reading contract files.

import (
	"fmt"
	"go/ast"
	"go/token"
	"go/types"
	"os"
	"path/filepath"
	"sort"
	"strings"

	"golang.org/x/tools/go/packages"
)

type FuncInfo struct {
	Key    string // "leveldb.(*iComparer).Compare" / "leveldb.makeInternalKey"
	Short  string // "(*iComparer).Compare" / "makeInternalKey"
	Pkg    *packages.Package
	Decl   *ast.FuncDecl
	Obj    *types.Func
	File   string
	Contract *Contract
	Lit    *ast.FuncLit // set for a function literal verified as a unit ("f$k")
	Parent *FuncInfo
}

type World struct {
	Fset   *token.FileSet
	Pkgs   []*packages.Package
	ByPath map[string]*packages.Package
	ByName map[string]*packages.Package // package name -> package (leveldb subpackages have unique names)
	Funcs  map[string]*FuncInfo         // by Key
	ByObj  map[*types.Func]*FuncInfo
	Specs  *SpecWorld
	Repo   string
	cg *callGraph
	ff *fvFlow
	rtaInfo *rtaInfo
	nonNilGlobals map[string]bool
	skipTerminating *ast.BlockStmt
	noCalleeEffects bool
}

func funcShort(fd *ast.FuncDecl) string {
	if fd.Recv == nil || len(fd.Recv.List) == 0 {
		return fd.Name.Name
	}
	t := fd.Recv.List[0].Type
	star := false
	if s, ok := t.(*ast.StarExpr); ok {
		star = true
		t = s.X
	}
	name := "?"
	switch x := t.(type) {
	case *ast.Ident:
		name = x.Name
	case *ast.IndexExpr:
		if id, ok := x.X.(*ast.Ident); ok {
			name = id.Name
		}
	}
	if star {
		return "(*" + name + ")." + fd.Name.Name
	}
	return "(" + name + ")." + fd.Name.Name
}

func loadWorld(repo string) (*World, error) {
	cfg := &packages.Config{
		Mode: packages.NeedName | packages.NeedFiles | packages.NeedSyntax | packages.NeedTypes |
			packages.NeedTypesInfo | packages.NeedImports | packages.NeedDeps | packages.NeedCompiledGoFiles,
		Dir:        repo,
		BuildFlags: []string{"-tags=verif"},
		Env: append(os.Environ(), "GOFLAGS=-mod=mod", "GOPROXY=off", "GOSUMDB=off", "GOTOOLCHAIN=local"),
	}
	pkgs, err := packages.Load(cfg, "./leveldb/...")
	if err != nil {
		return nil, err
	}
	w := &World{ByPath: map[string]*packages.Package{}, ByName: map[string]*packages.Package{},
		Funcs: map[string]*FuncInfo{}, ByObj: map[*types.Func]*FuncInfo{}, Repo: repo}
	nerr := 0
	for _, p := range pkgs {
		for _, e := range p.Errors {
			fmt.Fprintf(os.Stderr, "load error: %v\n", e)
			nerr++
		}
	}
	if nerr > 0 {
		return nil, fmt.Errorf("%d package load errors", nerr)
	}
	sort.Slice(pkgs, func(i, j int) bool { return pkgs[i].PkgPath < pkgs[j].PkgPath })
	for _, p := range pkgs {
		if strings.HasSuffix(p.PkgPath, "/testutil") || strings.Contains(p.PkgPath, "manualtest") {
			continue
		}
		w.Pkgs = append(w.Pkgs, p)
		w.ByPath[p.PkgPath] = p
		w.ByName[p.Name] = p
		if w.Fset == nil {
			w.Fset = p.Fset
		}
		for _, f := range p.Syntax {
			fname := p.Fset.Position(f.Pos()).Filename
			if strings.HasSuffix(fname, "_test.go") {
				continue
			}
			for _, d := range f.Decls {
				fd, ok := d.(*ast.FuncDecl)
				if !ok || fd.Body == nil {
					continue
				}
				obj, _ := p.TypesInfo.Defs[fd.Name].(*types.Func)
				fi := &FuncInfo{Short: funcShort(fd), Pkg: p, Decl: fd, Obj: obj, File: fname}
				fi.Key = p.Name + "." + fi.Short
				if fd.Name.Name == "init" || fd.Name.Name == "_" {
					continue
				}
				if _, dup := w.Funcs[fi.Key]; dup {
					// build-tagged duplicates cannot both load; keep first
					continue
				}
				w.Funcs[fi.Key] = fi
				if obj != nil {
					w.ByObj[obj] = fi
				}
			}
		}
	}
	return w, nil
}

// contractFiles returns the contract file of each loaded package (if present).
func (w *World) contractFiles() []string {
	var out []string
	for _, p := range w.Pkgs {
		for _, f := range p.CompiledGoFiles {
			if filepath.Base(f) == "zz_contracts_verif.go" {
				out = append(out, f)
			}
		}
	}
	return out
}

func (w *World) pkgOfFile(file string) *packages.Package {
	for _, p := range w.Pkgs {
		for _, f := range p.CompiledGoFiles {
			if f == file {
				return p
			}
		}
	}
	return nil
}

// relPos renders a position relative to the repo root.
func (w *World) relPos(p token.Pos) string {
	pos := w.Fset.Position(p)
	rel, err := filepath.Rel(w.Repo, pos.Filename)
	if err != nil {
		rel = pos.Filename
	}
	return fmt.Sprintf("%s:%d", rel, pos.Line)
}

// globalInitNonNil: the package-level variable is declared with a constructor call (errors.New(...), &T{...})
// and never assigned afterwards (checked over the loaded packages for their own variables).
func (w *World) globalInitNonNil(v *types.Var) bool {
	if w.nonNilGlobals == nil {
		w.nonNilGlobals = map[string]bool{}
		assigned := map[string]bool{}
		scan := func(pkgs []*packages.Package) {
			for _, p := range pkgs {
				for _, f := range p.Syntax {
					for _, d := range f.Decls {
						switch x := d.(type) {
						case *ast.GenDecl:
							if x.Tok != token.VAR {
								continue
							}
							for _, sp := range x.Specs {
								vs := sp.(*ast.ValueSpec)
								if len(vs.Values) != len(vs.Names) {
									continue
								}
								for i, n := range vs.Names {
									ok := false
									switch init := stripParens(vs.Values[i]).(type) {
									case *ast.CallExpr:
										name := exprString(init.Fun)
										if strings.HasSuffix(name, "New") || strings.HasSuffix(name, "Errorf") || strings.Contains(name, "NewErr") {
											ok = true
										}
									case *ast.UnaryExpr:
										if _, isLit := init.X.(*ast.CompositeLit); isLit && init.Op == token.AND {
											ok = true
										}
									}
									if ok {
										w.nonNilGlobals[p.PkgPath+"."+n.Name] = true
									}
								}
							}
						case *ast.FuncDecl:
							if x.Body == nil {
								continue
							}
							ast.Inspect(x.Body, func(nn ast.Node) bool {
								if as, ok := nn.(*ast.AssignStmt); ok && as.Tok == token.ASSIGN {
									for _, l := range as.Lhs {
										if id, ok := stripParens(l).(*ast.Ident); ok {
											if gv, ok := p.TypesInfo.Uses[id].(*types.Var); ok && gv.Pkg() != nil && gv.Parent() == gv.Pkg().Scope() {
												assigned[gv.Pkg().Path()+"."+gv.Name()] = true
											}
										}
									}
								}
								return true
							})
						}
					}
				}
			}
		}
		scan(w.Pkgs)
		// a global initialised with another non-nil global (var ErrNotFound = errors.ErrNotFound) is non-nil too
		for round := 0; round < 4; round++ {
			for _, p := range w.Pkgs {
				for _, f := range p.Syntax {
					for _, d := range f.Decls {
						gd, ok := d.(*ast.GenDecl)
						if !ok || gd.Tok != token.VAR {
							continue
						}
						for _, sp := range gd.Specs {
							vs := sp.(*ast.ValueSpec)
							if len(vs.Values) != len(vs.Names) {
								continue
							}
							for i, n := range vs.Names {
								var id *ast.Ident
								switch init := stripParens(vs.Values[i]).(type) {
								case *ast.Ident:
									id = init
								case *ast.SelectorExpr:
									id = init.Sel
								}
								if id == nil {
									continue
								}
								if gv, ok := p.TypesInfo.Uses[id].(*types.Var); ok && gv.Pkg() != nil && gv.Parent() == gv.Pkg().Scope() {
									if w.nonNilGlobals[gv.Pkg().Path()+"."+gv.Name()] {
										w.nonNilGlobals[p.PkgPath+"."+n.Name] = true
									}
								}
							}
						}
					}
				}
			}
		}
		// well-known sentinel errors of the standard library
		for _, k := range []string{"io.EOF", "io.ErrUnexpectedEOF", "io.ErrShortWrite", "os.ErrNotExist", "os.ErrExist"} {
			w.nonNilGlobals[k] = true
		}
		for k := range assigned {
			delete(w.nonNilGlobals, k)
		}
	}
	if v.Pkg() == nil {
		return false
	}
	return w.nonNilGlobals[v.Pkg().Path()+"."+v.Name()]
}
