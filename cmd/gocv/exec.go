package main

// Forward symbolic execution of Go function bodies over the typed AST.

import (
	"fmt"
	"go/ast"
	"go/token"
	"go/types"
	"sort"
	"strings"

	"golang.org/x/tools/go/packages"
)

const (
	oNormal = iota
	oBreak
	oContinue
	oReturn
	oGoto
)

type Outcome struct {
	Kind  int
	Label string
	St    *State
	Pos   token.Pos
}

// Env is one activation (the function under verification or an inlined callee / closure).
type Env struct {
	C       *FCtx
	Pkg     *packages.Package
	Info    *types.Info
	Sig     *types.Signature
	Results []*types.Var // result variables (named or synthesized)
	Top     bool
	Boxed   map[types.Object]bool
	Name    string
	Parent  *Env
	FI      *FuncInfo
	inGotoLoop map[string]bool
	fixed      map[*ast.CallExpr]*fixedCall
}

// litOfTop: this activation is a function literal written inside the function under verification.
func (e *Env) litOfTop() bool {
	for x := e; x != nil; x = x.Parent {
		if x.Top {
			return true
		}
		if x.FI != nil {
			return false
		}
	}
	return false
}

// fixedCall: receiver captured when a defer statement was executed.
type fixedCall struct {
	recv      Value
	hasRecv   bool
	lockRef   *Term
	lockOwner types.Type
	lockField string
}

func (c *FCtx) newEnv(pkg *packages.Package, sig *types.Signature, body *ast.BlockStmt, top bool, name string) *Env {
	e := &Env{C: c, Pkg: pkg, Info: pkg.TypesInfo, Sig: sig, Top: top, Boxed: map[types.Object]bool{}, Name: name}
	if sig != nil {
		for i := 0; i < sig.Results().Len(); i++ {
			rv := sig.Results().At(i)
			if rv.Name() == "" || rv.Name() == "_" {
				rv = types.NewVar(token.NoPos, pkg.Types, fmt.Sprintf("ret%d", i), rv.Type())
			}
			e.Results = append(e.Results, rv)
		}
	}
	if body != nil {
		e.findBoxed(body)
	}
	return e
}

// findBoxed marks locals whose address is taken.
func (e *Env) findBoxed(body ast.Node) {
	ast.Inspect(body, func(n ast.Node) bool {
		switch x := n.(type) {
		case *ast.UnaryExpr:
			if x.Op == token.AND {
				if id, ok := stripParens(x.X).(*ast.Ident); ok {
					if obj := e.Info.Uses[id]; obj != nil {
						if _, isVar := obj.(*types.Var); isVar {
							e.Boxed[obj] = true
						}
					}
				}
			}
		case *ast.CallExpr:
			if sel, ok := x.Fun.(*ast.SelectorExpr); ok {
				if s := e.Info.Selections[sel]; s != nil && s.Kind() == types.MethodVal {
					if id, ok := stripParens(sel.X).(*ast.Ident); ok {
						if obj, ok := e.Info.Uses[id].(*types.Var); ok {
							_, recvIsPtr := obj.Type().Underlying().(*types.Pointer)
							if fn, ok := s.Obj().(*types.Func); ok && !recvIsPtr {
								if sig, ok := fn.Type().(*types.Signature); ok && sig.Recv() != nil {
									if _, wantsPtr := sig.Recv().Type().(*types.Pointer); wantsPtr {
										if _, isStruct := obj.Type().Underlying().(*types.Struct); isStruct {
											e.Boxed[obj] = true
										}
									}
								}
							}
						}
					}
				}
			}
		}
		return true
	})
}

func stripParens(e ast.Expr) ast.Expr {
	for {
		p, ok := e.(*ast.ParenExpr)
		if !ok {
			return e
		}
		e = p.X
	}
}

// ---- obligations ----

func (c *FCtx) ordinal(kind string) int {
	c.ord[kind]++
	return c.ord[kind]
}

// siteOrdinal gives a stable per-kind ordinal for a source position (same for all paths).
func (c *FCtx) siteOrdinal(kind string, pos token.Pos) int {
	key := token.Pos(int(pos)*16 + kindCode(kind))
	if n, ok := c.siteOrd[key]; ok {
		return n
	}
	n := c.ordinal(kind)
	c.siteOrd[key] = n
	return n
}

func kindCode(k string) int {
	switch k {
	case "bounds":
		return 1
	case "nil":
		return 2
	case "div0":
		return 3
	case "panic":
		return 4
	case "ovf":
		return 5
	case "pre":
		return 6
	case "assert":
		return 7
	case "unlock":
		return 8
	}
	return 9
}

func (c *FCtx) oblige(st *State, kind, name string, pos token.Pos, goal *Term, text string) {
	if goal.IsTrue() {
		return
	}
	if st.dead {
		return
	}
	// one obligation per conjunct: A => (B1 && B2) and (B1 && B2) are split
	if parts := splitGoal(goal); len(parts) > 1 {
		for i, p := range parts {
			c.oblige(st, kind, fmt.Sprintf("%s/%d", name, i+1), pos, p, text)
		}
		return
	}
	hyps := st.pc.list()
	if len(c.Globals) > 0 {
		hyps = append(append([]*Term{}, hyps...), c.Globals...)
	}
	o := &Obligation{Name: c.Name + ":" + name, Kind: kind, Goal: goal, Hyps: hyps, Func: c.Name, Text: text}
	o.DeepInst = c.Contract != nil && c.Contract.Flags["deepinst"] != ""
	if pos.IsValid() {
		o.Pos = c.W.relPos(pos)
	}
	c.Obls = append(c.Obls, o)
}

// widen zero-extends narrow bit-vector measures to the index width.
func (c *FCtx) widen(t *Term) *Term {
	if t.Sort.IsBV() && t.Sort.BVWidth() < 64 {
		return bvZext(64-t.Sort.BVWidth(), t)
	}
	if t.Op == "int" && c.Mode == ModeBV {
		return BVC(t.Val, 64)
	}
	return t
}

func splitGoal(g *Term) []*Term {
	switch g.Op {
	case "and":
		var out []*Term
		for _, a := range g.Args {
			out = append(out, splitGoal(a)...)
		}
		return out
	case "=>":
		cons := splitGoal(g.Args[1])
		if len(cons) > 1 {
			var out []*Term
			for _, x := range cons {
				out = append(out, Implies(g.Args[0], x))
			}
			return out
		}
	}
	return []*Term{g}
}

func (c *FCtx) safety(st *State, kind string, pos token.Pos, goal *Term, text string) {
	if !c.Safety {
		// run-time panics are assumed absent in this mode (listed in the evidence)
		st.assume(goal)
		return
	}
	n := c.siteOrdinal(kind, pos)
	c.oblige(st, kind, fmt.Sprintf("%s#%d", kind, n), pos, goal, text)
	st.assume(goal)
}

// ---- statements ----

// labelIndex finds a (non-loop) labeled statement in a statement list.
func labelIndex(list []ast.Stmt, label string) int {
	for i, s := range list {
		if ls, ok := s.(*ast.LabeledStmt); ok && ls.Label.Name == label {
			return i
		}
	}
	return -1
}

// gotoTargets: labels that are the target of a goto somewhere in the list.
func gotoTargets(list []ast.Stmt) map[string]bool {
	m := map[string]bool{}
	for _, s := range list {
		ast.Inspect(s, func(n ast.Node) bool {
			if b, ok := n.(*ast.BranchStmt); ok && b.Tok == token.GOTO && b.Label != nil {
				m[b.Label.Name] = true
			}
			if _, ok := n.(*ast.FuncLit); ok {
				return false
			}
			return true
		})
	}
	return m
}

func (e *Env) execBlock(list []ast.Stmt, st *State) []Outcome {
	cur := []*State{st}
	var outs []Outcome
	for idx, s := range list {
		// a label that is jumped to from later in the block is a loop head (cut point)
		if ls, ok := s.(*ast.LabeledStmt); ok {
			if gotoTargets(list[idx:])[ls.Label.Name] && !e.inGotoLoop[ls.Label.Name] {
				var res []Outcome
				for _, cs := range cur {
					res = append(res, e.execGotoLoop(list[idx:], ls.Label.Name, cs)...)
				}
				return append(outs, res...)
			}
		}
		var next []*State
		for _, cs := range cur {
			for _, o := range e.execStmt(s, cs) {
				if o.Kind == oNormal {
					next = append(next, o.St)
				} else if o.Kind == oGoto && labelIndex(list, o.Label) > idx {
					// forward jump inside this block: resume at the label
					k := labelIndex(list, o.Label)
					outs = append(outs, e.execBlock(list[k:], o.St)...)
				} else {
					outs = append(outs, o)
				}
			}
		}
		cur = next
		if len(cur) == 0 {
			break
		}
		if len(cur) > 1 && !e.splitPaths() {
			if m := e.C.mergeStates(cur); m != nil {
				cur = []*State{m}
			}
		}
		e.C.budgetPaths -= len(cur)
		if e.C.budgetPaths < 0 {
			panic(outOfReach("path budget exhausted"))
		}
	}
	for _, cs := range cur {
		outs = append(outs, Outcome{Kind: oNormal, St: cs})
	}
	return outs
}

type outOfReach string

func (e *Env) execStmt(s ast.Stmt, st *State) []Outcome {
	c := e.C
	if s != nil && (e.Top || e.litOfTop()) && c.Contract != nil && len(c.Contract.Ats) > 0 && !st.dead {
		if ord, ok := c.stmtOrd[s.Pos()]; ok {
			saved := c.specAt
			c.specAt = s.Pos()
			c.runAts(e, st, "before "+ord, nil)
			c.specAt = saved
			if c.hasAt("after " + ord) {
				outs := e.execStmt0(s, st)
				for _, o := range outs {
					if o.Kind == oNormal && o.St != nil && !o.St.dead {
						c.specAt = s.End()
						c.runAts(e, o.St, "after "+ord, nil)
						c.specAt = saved
					}
				}
				return outs
			}
		}
	}
	return e.execStmt0(s, st)
}

func (c *FCtx) hasAt(where string) bool {
	for _, at := range c.Contract.Ats {
		if at.Where == where {
			return true
		}
	}
	return false
}

func (e *Env) execStmt0(s ast.Stmt, st *State) []Outcome {
	c := e.C
	switch x := s.(type) {
	case nil:
		return []Outcome{{Kind: oNormal, St: st}}
	case *ast.EmptyStmt:
		return []Outcome{{Kind: oNormal, St: st}}
	case *ast.BlockStmt:
		return e.execBlock(x.List, st)
	case *ast.ExprStmt:
		e.eval(x.X, st)
		if st.dead {
			return nil
		}
		return []Outcome{{Kind: oNormal, St: st}}
	case *ast.DeclStmt:
		gd, ok := x.Decl.(*ast.GenDecl)
		if !ok || gd.Tok != token.VAR {
			return []Outcome{{Kind: oNormal, St: st}}
		}
		for _, sp := range gd.Specs {
			vs := sp.(*ast.ValueSpec)
			if len(vs.Values) == len(vs.Names) {
				for i, n := range vs.Names {
					v := e.eval(vs.Values[i], st)
					e.declare(st, n, v)
				}
			} else if len(vs.Values) == 0 {
				for _, n := range vs.Names {
					obj := e.Info.Defs[n]
					if obj == nil {
						continue
					}
					e.declare(st, n, c.zeroValue(obj.Type()))
				}
			} else {
				tv := e.eval(vs.Values[0], st)
				tup, _ := tv.(*TupleV)
				for i, n := range vs.Names {
					if tup != nil && i < len(tup.Vs) {
						e.declare(st, n, tup.Vs[i])
					}
				}
			}
		}
		if st.dead {
			return nil
		}
		return []Outcome{{Kind: oNormal, St: st}}
	case *ast.AssignStmt:
		e.execAssign(x, st)
		if st.dead {
			return nil
		}
		return []Outcome{{Kind: oNormal, St: st}}
	case *ast.IncDecStmt:
		t := e.Info.TypeOf(x.X)
		cur := e.eval(x.X, st)
		ct, ok := cur.(*Term)
		if !ok {
			return []Outcome{{Kind: oNormal, St: st}}
		}
		op := token.ADD
		if x.Tok == token.DEC {
			op = token.SUB
		}
		one := c.intConst(bigOne, t)
		e.assignTo(x.X, c.arith(op, ct, one, t, false), st)
		return []Outcome{{Kind: oNormal, St: st}}
	case *ast.IfStmt:
		return e.execIf(x, st)
	case *ast.ForStmt:
		return e.execFor(x, st, "")
	case *ast.RangeStmt:
		return e.execRange(x, st, "")
	case *ast.LabeledStmt:
		switch y := x.Stmt.(type) {
		case *ast.ForStmt:
			return e.execFor(y, st, x.Label.Name)
		case *ast.RangeStmt:
			return e.execRange(y, st, x.Label.Name)
		case *ast.SwitchStmt:
			return e.execSwitch(y, st, x.Label.Name)
		case *ast.SelectStmt:
			return e.execSelect(y, st, x.Label.Name)
		}
		outs := e.execStmt(x.Stmt, st)
		return outs
	case *ast.SwitchStmt:
		return e.execSwitch(x, st, "")
	case *ast.TypeSwitchStmt:
		return e.execTypeSwitch(x, st)
	case *ast.SelectStmt:
		return e.execSelect(x, st, "")
	case *ast.ReturnStmt:
		return e.execReturn(x, st)
	case *ast.BranchStmt:
		lbl := ""
		if x.Label != nil {
			lbl = x.Label.Name
		}
		switch x.Tok {
		case token.BREAK:
			return []Outcome{{Kind: oBreak, Label: lbl, St: st}}
		case token.CONTINUE:
			return []Outcome{{Kind: oContinue, Label: lbl, St: st}}
		case token.GOTO:
			return []Outcome{{Kind: oGoto, Label: lbl, St: st}}
		case token.FALLTHROUGH:
			panic(outOfReach("fallthrough"))
		}
	case *ast.DeferStmt:
		e.execDefer(x, st)
		return []Outcome{{Kind: oNormal, St: st}}
	case *ast.GoStmt:
		// effects of the spawned goroutine are not sequenced with this thread: evaluate arguments only
		for _, a := range x.Call.Args {
			e.eval(a, st)
		}
		c.protoGo(e, x, st)
		return []Outcome{{Kind: oNormal, St: st}}
	case *ast.SendStmt:
		ch := x.Chan
		sv := e.eval(x.Value, st)
		c.protoSendValue(e, st, ch, sv)
		c.protoChanOp(e, st, ch, true, x.Pos())
		if st.dead {
			return nil
		}
		return []Outcome{{Kind: oNormal, St: st}}
	}
	c.note("unsupported statement %T at %s", s, c.W.relPos(s.Pos()))
	c.havocAll(st, "unsupported statement")
	return []Outcome{{Kind: oNormal, St: st}}
}

func (e *Env) declare(st *State, id *ast.Ident, v Value) {
	if id.Name == "_" {
		return
	}
	obj := e.Info.Defs[id]
	if obj == nil {
		obj = e.Info.Uses[id]
	}
	if obj == nil {
		return
	}
	e.setVar(st, obj, v)
}

func (e *Env) setVar(st *State, obj types.Object, v Value) {
	c := e.C
	if e.isBoxed(obj) {
		ref, ok := st.vars[obj].(*Term)
		if !ok {
			ref = c.newRef(st, "box_"+obj.Name())
			st.vars[obj] = ref
		}
		c.storeCell(st, ref, obj.Type(), v)
		return
	}
	st.vars[obj] = v
}

func (e *Env) isBoxed(obj types.Object) bool {
	for x := e; x != nil; x = x.Parent {
		if x.Boxed[obj] {
			return true
		}
	}
	return false
}

func (e *Env) getVar(st *State, obj types.Object) (Value, bool) {
	c := e.C
	if e.isBoxed(obj) {
		ref, ok := st.vars[obj].(*Term)
		if !ok {
			ref = c.newRef(st, "box_"+obj.Name())
			st.vars[obj] = ref
			c.storeCell(st, ref, obj.Type(), c.zeroValue(obj.Type()))
		}
		return c.loadCell(st, ref, obj.Type()), true
	}
	v, ok := st.vars[obj]
	return v, ok
}

// cells: pointer targets. Struct targets use the field maps of the struct type; others use P$<type>.
func (c *FCtx) loadCell(st *State, ref *Term, t types.Type) Value {
	if s, ok := t.Underlying().(*types.Struct); ok {
		sv := &StructV{Typ: t, F: map[string]Value{}}
		for i := 0; i < s.NumFields(); i++ {
			f := s.Field(i)
			sv.F[f.Name()] = c.loadField(st, ref, t, f)
		}
		return sv
	}
	if a, ok := t.Underlying().(*types.Array); ok {
		return &SliceV{Base: ref, Off: c.idxC(0), Len: c.idxC(a.Len()), Cap: c.idxC(a.Len()), Elem: a.Elem()}
	}
	base := "P$" + typeKey(t)
	var facts []*Term
	var slices []*SliceV
	v := c.build(t, base, func(path string, lt types.Type, s Sort) *Term {
		x := Select(c.heapGet(st, path, SArr(SInt, s)), ref)
		if lt != nil {
			if f := c.rangeFact(lt, x); !f.IsTrue() {
				facts = append(facts, f)
			}
		}
		return x
	}, nil)
	c.collectSlices(v, &slices)
	for _, sl := range slices {
		facts = append(facts, c.sliceWF(sl)...)
	}
	for _, f := range facts {
		st.assume(f)
	}
	return v
}

func (c *FCtx) storeCell(st *State, ref *Term, t types.Type, v Value) {
	if s, ok := t.Underlying().(*types.Struct); ok {
		sv, ok := v.(*StructV)
		if !ok {
			c.note("storeCell: struct value expected for %s", t)
			return
		}
		for i := 0; i < s.NumFields(); i++ {
			f := s.Field(i)
			if fv, ok := sv.F[f.Name()]; ok {
				c.storeField(st, ref, t, f, fv)
			}
		}
		return
	}
	if _, ok := t.Underlying().(*types.Array); ok {
		if src, ok := v.(*SliceV); ok {
			a := t.Underlying().(*types.Array)
			dst := &SliceV{Base: ref, Off: c.idxC(0), Len: c.idxC(a.Len()), Cap: c.idxC(a.Len()), Elem: a.Elem()}
			if !termEq(src.Base, ref) {
				c.copyInto(st, dst, src, dst.Len)
			}
		}
		return
	}
	base := "P$" + typeKey(t)
	c.walkLeaves(t, v, base, func(path string, lt types.Type, leaf *Term) {
		arr := c.heapGet(st, path, SArr(SInt, leaf.Sort))
		c.heapSet(st, path, Store(arr, ref, leaf))
	})
}

// newRef allocates a fresh non-nil reference distinct from everything known so far.
func (c *FCtx) newRef(st *State, base string) *Term {
	r := c.freshVar(base, SInt)
	st.assume(IGt(r, IntC(0)))
	alloc := c.heapGet(st, "$alloc", SInt)
	st.assume(IGe(r, alloc))
	c.heapSet(st, "$alloc", IAdd(r, IntC(1)))
	return r
}

func (c *FCtx) zeroValue(t types.Type) Value {
	if c.AbsKeys && (isInternalKeyType(t) || isByteSlice(t)) {
		return c.nilKey(t)
	}
	if _, ok := t.Underlying().(*types.Array); ok {
		// local array: fresh zeroed backing store is approximated by an unconstrained fresh base
		a := t.Underlying().(*types.Array)
		return &SliceV{Base: c.freshVar("arr", SInt), Off: c.idxC(0), Len: c.idxC(a.Len()), Cap: c.idxC(a.Len()), Elem: a.Elem()}
	}
	return c.build(t, "zero", func(path string, lt types.Type, s Sort) *Term {
		switch {
		case s == SBool:
			return TFalse
		case s.IsBV():
			return BVC(bigZero, s.BVWidth())
		default:
			return IntC(0)
		}
	}, nil)
}

func (e *Env) execAssign(x *ast.AssignStmt, st *State) {
	c := e.C
	if x.Tok != token.ASSIGN && x.Tok != token.DEFINE {
		// op=
		var op token.Token
		switch x.Tok {
		case token.ADD_ASSIGN:
			op = token.ADD
		case token.SUB_ASSIGN:
			op = token.SUB
		case token.MUL_ASSIGN:
			op = token.MUL
		case token.QUO_ASSIGN:
			op = token.QUO
		case token.REM_ASSIGN:
			op = token.REM
		case token.AND_ASSIGN:
			op = token.AND
		case token.OR_ASSIGN:
			op = token.OR
		case token.XOR_ASSIGN:
			op = token.XOR
		case token.SHL_ASSIGN:
			op = token.SHL
		case token.SHR_ASSIGN:
			op = token.SHR
		case token.AND_NOT_ASSIGN:
			op = token.AND_NOT
		}
		t := e.Info.TypeOf(x.Lhs[0])
		l := e.eval(x.Lhs[0], st)
		r := e.eval(x.Rhs[0], st)
		lt, ok1 := l.(*Term)
		rt, ok2 := r.(*Term)
		if !ok1 || !ok2 {
			if ls, ok := l.(*SliceV); ok && ls.Str && op == token.ADD {
				// string concatenation: opaque
				nv, facts := c.freshValue(t, "strcat")
				for _, f := range facts {
					st.assume(f)
				}
				e.assignTo(x.Lhs[0], nv, st)
				return
			}
			c.note("unsupported op-assign at %s", c.W.relPos(x.Pos()))
			nv, _ := c.freshValue(t, "opassign")
			e.assignTo(x.Lhs[0], nv, st)
			return
		}
		if op == token.SHL || op == token.SHR {
			// shift count may have another type
		} else if _, _, isInt := intInfo(t); isInt {
			rt = coerce(rt, lt.Sort)
		}
		if (op == token.QUO || op == token.REM) && isIntType(t) {
			c.safety(st, "div0", x.Pos(), Neq(rt, coerce(IntC(0), rt.Sort)), "division by zero")
		}
		if !isIntType(t) {
			nv, _ := c.freshValue(t, "fop")
			e.assignTo(x.Lhs[0], nv, st)
			return
		}
		e.assignTo(x.Lhs[0], c.arith(op, lt, rt, t, false), st)
		c.drainSideFacts(st)
		return
	}
	// evaluate RHS
	var vals []Value
	if len(x.Rhs) == 1 && len(x.Lhs) > 1 {
		v := e.evalMulti(x.Rhs[0], st, len(x.Lhs))
		vals = v
	} else {
		for _, r := range x.Rhs {
			vals = append(vals, e.eval(r, st))
		}
	}
	if st.dead {
		return
	}
	for i, l := range x.Lhs {
		if i >= len(vals) {
			break
		}
		v := vals[i]
		if x.Tok == token.DEFINE {
			if id, ok := l.(*ast.Ident); ok {
				if id.Name == "_" {
					continue
				}
				if obj := e.Info.Defs[id]; obj != nil {
					e.setVar(st, obj, e.adapt(v, obj.Type()))
					continue
				}
			}
		}
		e.assignTo(l, v, st)
	}
}

func isIntType(t types.Type) bool {
	_, _, ok := intInfo(t)
	return ok
}

// adapt fixes representation mismatches (e.g. untyped const into bv).
func (e *Env) adapt(v Value, t types.Type) Value {
	if tm, ok := v.(*Term); ok && t != nil && e.C.AbsKeys && tm.IsConst() && (isInternalKeyType(t) || isByteSlice(t)) {
		return e.C.nilKey(t)
	}
	if tm, ok := v.(*Term); ok && t != nil {
		if _, isSlice := t.Underlying().(*types.Slice); isSlice && tm.IsConst() {
			return e.C.zeroValue(t)
		}
	}
	if tm, ok := v.(*Term); ok {
		want := e.C.leafSort(t)
		if tm.Sort != want && tm.IsConst() {
			return coerce(tm, want)
		}
	}
	return v
}

// assignTo stores v into the lvalue l.
func (e *Env) assignTo(l ast.Expr, v Value, st *State) {
	c := e.C
	l = stripParens(l)
	switch x := l.(type) {
	case *ast.Ident:
		if x.Name == "_" {
			return
		}
		obj := e.Info.Uses[x]
		if obj == nil {
			obj = e.Info.Defs[x]
		}
		if obj == nil {
			return
		}
		if vr, ok := obj.(*types.Var); ok && vr.Parent() == vr.Pkg().Scope() {
			c.storeGlobal(st, vr, e.adapt(v, obj.Type()))
			return
		}
		e.setVar(st, obj, e.adapt(v, obj.Type()))
	case *ast.SelectorExpr:
		sel := e.Info.Selections[x]
		if sel == nil {
			// qualified global
			if obj, ok := e.Info.Uses[x.Sel].(*types.Var); ok {
				c.storeGlobal(st, obj, v)
			}
			return
		}
		ref, owner, fld, ok := e.fieldAddr(x, st)
		if !ok {
			// value-typed struct local: update in place
			e.assignStructField(x, v, st)
			return
		}
		c.protoFieldWrite(e, st, owner, fld, x.Pos())
		c.storeField(st, ref, owner, fld, e.adapt(v, fld.Type()))
	case *ast.IndexExpr:
		bt := e.Info.TypeOf(x.X)
		switch bt.Underlying().(type) {
		case *types.Map:
			e.eval(x.X, st)
			e.eval(x.Index, st)
			c.mapWrite(e, st, x, v)
			return
		}
		base := e.eval(x.X, st)
		idx := e.eval(x.Index, st)
		sl, ok := e.asSlice(base, bt, st)
		it, ok2 := idx.(*Term)
		if !ok || !ok2 {
			c.note("unsupported index assignment at %s", c.W.relPos(x.Pos()))
			c.havocAll(st, "index assignment")
			return
		}
		it = c.toIdx(it, e.Info.TypeOf(x.Index))
		c.safety(st, "bounds", x.Pos(), And(c.ile(c.idxC(0), it), c.ilt(it, sl.Len)), "index in range")
		c.storeElem(st, sl, it, e.adapt(v, sl.Elem))
	case *ast.StarExpr:
		p := e.eval(x.X, st)
		pt, ok := p.(*Term)
		if !ok {
			c.havocAll(st, "store through pointer")
			return
		}
		c.safety(st, "nil", x.Pos(), Neq(pt, IntC(0)), "nil dereference")
		pty, _ := e.Info.TypeOf(x.X).Underlying().(*types.Pointer)
		if pty == nil {
			return
		}
		c.storeCell(st, pt, pty.Elem(), v)
	default:
		c.note("unsupported lvalue %T at %s", l, c.W.relPos(l.Pos()))
		c.havocAll(st, "unsupported lvalue")
	}
}

// assignStructField handles x.f = v where x is a value-typed struct local (possibly nested).
func (e *Env) assignStructField(x *ast.SelectorExpr, v Value, st *State) {
	c := e.C
	cur := e.eval(x.X, st)
	sv, ok := cur.(*StructV)
	if !ok {
		c.note("unsupported struct field assignment at %s", c.W.relPos(x.Pos()))
		return
	}
	n := &StructV{Typ: sv.Typ, F: map[string]Value{}}
	for k, fv := range sv.F {
		n.F[k] = fv
	}
	n.F[x.Sel.Name] = v
	e.assignTo(x.X, n, st)
}

// fieldAddr resolves x.f to (ref of owning object, owner struct type, field) when x is (or points to) a heap struct.
func (e *Env) fieldAddr(x *ast.SelectorExpr, st *State) (*Term, types.Type, *types.Var, bool) {
	c := e.C
	sel := e.Info.Selections[x]
	if sel == nil || sel.Kind() != types.FieldVal {
		return nil, nil, nil, false
	}
	recvT := sel.Recv()
	base := e.eval(x.X, st)
	// walk the selection path (embedded fields)
	idx := sel.Index()
	curT := recvT
	var curRef *Term
	var curVal Value = base
	if _, isPtr := curT.Underlying().(*types.Pointer); isPtr {
		r, ok := base.(*Term)
		if !ok {
			return nil, nil, nil, false
		}
		curRef = r
		c.safety(st, "nil", x.Pos(), Neq(r, IntC(0)), "nil dereference")
		curT = curT.Underlying().(*types.Pointer).Elem()
	} else if id, ok := stripParens(x.X).(*ast.Ident); ok {
		if obj := e.Info.Uses[id]; obj != nil && e.isBoxed(obj) {
			if r, ok := st.vars[obj].(*Term); ok {
				curRef = r
			}
		}
	}
	for k, fi := range idx {
		s := structOf(curT)
		if s == nil {
			return nil, nil, nil, false
		}
		f := s.Field(fi)
		if k == len(idx)-1 {
			if curRef == nil {
				return nil, nil, nil, false
			}
			return curRef, curT, f, true
		}
		// intermediate embedded field
		prevT := curT
		if curRef != nil {
			if _, isStruct := f.Type().Underlying().(*types.Struct); !isStruct {
				curVal = c.loadField(st, curRef, curT, f)
			}
		} else if sv, ok := curVal.(*StructV); ok {
			curVal = sv.F[f.Name()]
		} else {
			return nil, nil, nil, false
		}
		curT = f.Type()
		if p, isPtr := curT.Underlying().(*types.Pointer); isPtr {
			r, ok := curVal.(*Term)
			if !ok {
				return nil, nil, nil, false
			}
			curRef = r
			curT = p.Elem()
		} else {
			// struct by value inside a heap object: its fields live in a sub-object
			if curRef != nil {
				curRef = c.embRef(prevT, f, curRef)
			}
		}
	}
	return nil, nil, nil, false
}

func (e *Env) execIf(x *ast.IfStmt, st *State) []Outcome {
	c := e.C
	if x.Init != nil {
		outs := e.execStmt(x.Init, st)
		if len(outs) != 1 || outs[0].Kind != oNormal {
			var res []Outcome
			for _, o := range outs {
				if o.Kind == oNormal {
					res = append(res, e.execIf(&ast.IfStmt{If: x.If, Cond: x.Cond, Body: x.Body, Else: x.Else}, o.St)...)
				} else {
					res = append(res, o)
				}
			}
			return res
		}
		st = outs[0].St
	}
	cond := e.evalCond(x.Cond, st)
	if st.dead {
		return nil
	}
	var outs []Outcome
	var normals []*State
	if !cond.IsFalse() {
		ts := st
		if !cond.IsTrue() {
			ts = st.clone()
		}
		ts.assume(cond)
		for _, o := range e.execBlock(x.Body.List, ts) {
			if o.Kind == oNormal {
				normals = append(normals, o.St)
			} else {
				outs = append(outs, o)
			}
		}
	}
	if !cond.IsTrue() {
		es := st
		es.assume(Not(cond))
		var eo []Outcome
		if x.Else != nil {
			eo = e.execStmt(x.Else, es)
		} else {
			eo = []Outcome{{Kind: oNormal, St: es}}
		}
		for _, o := range eo {
			if o.Kind == oNormal {
				normals = append(normals, o.St)
			} else {
				outs = append(outs, o)
			}
		}
	}
	if len(normals) > 1 && !e.splitPaths() {
		if m := c.mergeStates(normals); m != nil {
			normals = []*State{m}
		}
	}
	for _, n := range normals {
		outs = append(outs, Outcome{Kind: oNormal, St: n})
	}
	return outs
}

// splitPaths: the contract of the function under verification asks for its own branches to be kept as separate
// paths ("splitpaths"): smaller conditions, more of them. Inlined callees still merge.
func (e *Env) splitPaths() bool {
	c := e.C
	return e.Top && c.Contract != nil && c.Contract.Flags["splitpaths"] != ""
}

// evalCond evaluates a boolean expression to a term.
func (e *Env) evalCond(x ast.Expr, st *State) *Term {
	v := e.eval(x, st)
	if t, ok := v.(*Term); ok && t.Sort == SBool {
		return t
	}
	e.C.note("non-boolean condition at %s", e.C.W.relPos(x.Pos()))
	return e.C.freshVar("cond", SBool)
}

func (e *Env) execReturn(x *ast.ReturnStmt, st *State) []Outcome {
	c := e.C
	if len(x.Results) > 0 {
		var vals []Value
		if len(x.Results) == 1 && len(e.Results) > 1 {
			vals = e.evalMulti(x.Results[0], st, len(e.Results))
		} else {
			for _, r := range x.Results {
				vals = append(vals, e.eval(r, st))
			}
		}
		if st.dead {
			return nil
		}
		for i, rv := range e.Results {
			if i < len(vals) {
				st.vars[rv] = e.convertAssign(vals[i], e.resultExprType(x, i), rv.Type(), st)
			}
		}
	}
	_ = c
	return []Outcome{{Kind: oReturn, St: st, Pos: x.Pos()}}
}

func (e *Env) resultExprType(x *ast.ReturnStmt, i int) types.Type {
	if len(x.Results) == len(e.Results) {
		return e.Info.TypeOf(x.Results[i])
	}
	if len(x.Results) == 1 {
		if tup, ok := e.Info.TypeOf(x.Results[0]).(*types.Tuple); ok && i < tup.Len() {
			return tup.At(i).Type()
		}
	}
	return nil
}

// convertAssign models implicit conversion on assignment (concrete -> interface keeps non-nilness).
func (e *Env) convertAssign(v Value, from, to types.Type, st *State) Value {
	c := e.C
	if from == nil || to == nil {
		return e.adapt(v, to)
	}
	if _, toIface := to.Underlying().(*types.Interface); toIface {
		if _, fromIface := from.Underlying().(*types.Interface); !fromIface {
			return c.boxIface(st, v, from)
		}
	}
	return e.adapt(v, to)
}

// boxIface converts a concrete value into an interface value (a ref; nil only for untyped nil).
func (c *FCtx) boxIface(st *State, v Value, from types.Type) Value {
	if b, ok := from.(*types.Basic); ok && b.Kind() == types.UntypedNil {
		return IntC(0)
	}
	switch from.Underlying().(type) {
	case *types.Pointer, *types.Map, *types.Chan, *types.Signature:
		if t, ok := v.(*Term); ok {
			// typed pointer in interface: non-nil interface even for nil pointer; we keep the ref and
			// treat a nil pointer stored in an interface as out of the subset (noted when it matters)
			return t
		}
	}
	// concrete non-pointer value boxed: fresh non-nil ref determined by the value when scalar
	if t, ok := v.(*Term); ok && t.Sort == SInt {
		return App("box$"+typeKey(from), SInt, t)
	}
	r := c.freshVar("iface", SInt)
	st.assume(IGt(r, IntC(0)))
	return r
}

func (e *Env) execDefer(x *ast.DeferStmt, st *State) {
	c := e.C
	call := x.Call
	// evaluate arguments now
	var argVals []Value
	for _, a := range call.Args {
		argVals = append(argVals, e.eval(a, st))
	}
	// the receiver (and a lock designated by it) is fixed when the defer statement executes
	fc := &fixedCall{}
	if sel, ok := stripParens(call.Fun).(*ast.SelectorExpr); ok {
		if s := e.Info.Selections[sel]; s != nil && s.Kind() == types.MethodVal {
			if fn, ok := s.Obj().(*types.Func); ok && strings.HasPrefix(fn.FullName(), "(*sync.") {
				fc.hasRecv = true
				fc.recv = IntC(0)
				if ref, owner, fld, ok := e.lockFieldOf(sel.X, st); ok {
					fc.lockRef, fc.lockOwner, fc.lockField = ref, owner, fld
				}
			} else {
				fc.recv = e.eval(sel.X, st)
				fc.hasRecv = true
			}
		}
	}
	d := deferred{run: func(s2 *State) {
		if e.fixed == nil {
			e.fixed = map[*ast.CallExpr]*fixedCall{}
		}
		e.fixed[call] = fc
		e.evalCallWith(call, s2, argVals)
		delete(e.fixed, call)
	}}
	if len(st.defers) == 0 {
		st.defers = append(st.defers, nil)
	}
	st.defers[len(st.defers)-1] = append(st.defers[len(st.defers)-1], d)
	_ = c
}

// runDefers runs the deferred calls of the top frame (LIFO) and pops the frame.
func (e *Env) runDefers(st *State) {
	if len(st.defers) == 0 {
		return
	}
	top := st.defers[len(st.defers)-1]
	st.defers[len(st.defers)-1] = nil
	for i := len(top) - 1; i >= 0; i-- {
		top[i].run(st)
	}
}

// execGotoLoop treats "L: stmts ... goto L" as a loop whose head is the label (a cut point with the
// automatic invariants only).
func (e *Env) execGotoLoop(list []ast.Stmt, label string, st *State) []Outcome {
	c := e.C
	if !e.Top && !e.litOfTop() {
		panic(outOfReach("goto loop inside inlined callee " + e.Name))
	}
	if e.inGotoLoop == nil {
		e.inGotoLoop = map[string]bool{}
	}
	e.inGotoLoop[label] = true
	defer delete(e.inGotoLoop, label)
	body := &ast.BlockStmt{List: list}
	entry := st.clone()
	var lspec *LoopSpec
	if c.Contract != nil {
		lspec = c.Contract.LabelLoops[label]
	}
	invs := c.loopInvariants(e, lspec, -1, list[0].Pos())
	for _, inv := range invs {
		c.oblige(st, "inv-init", fmt.Sprintf("inv-init(label %s, %s)", label, inv.label), list[0].Pos(), inv.eval(e, st, entry), inv.text)
	}
	hs := st
	var havocked []havockedVar
	for _, obj := range e.assignedInSt(hs, body) {
		cur, ok := e.getVar(hs, obj)
		if !ok {
			continue
		}
		if _, isF := cur.(*FuncV); isF {
			continue
		}
		nv, facts := c.freshValue(obj.Type(), "h_"+obj.Name())
		e.setVar(hs, obj, nv)
		for _, f := range facts {
			hs.assume(f)
		}
		havocked = append(havocked, havockedVar{nv, obj.Type()})
	}
	c.havocLoopHeap(e, hs, body, nil, nil, entry)
	for _, hv := range havocked {
		c.assumeAllocated(hs, hv.v, hv.t, c.heapGet(hs, "$alloc", SInt))
	}
	for _, inv := range invs {
		hs.assume(inv.eval(e, hs, entry))
	}
	// strip the label from the first statement
	first := list[0].(*ast.LabeledStmt).Stmt
	stmts := append([]ast.Stmt{first}, list[1:]...)
	var outs []Outcome
	for _, o := range e.execBlock(stmts, hs) {
		if o.Kind == oGoto && o.Label == label {
			for _, inv := range invs {
				c.oblige(o.St, "inv-pres", fmt.Sprintf("inv-pres(label %s, %s)", label, inv.label), list[0].Pos(), inv.eval(e, o.St, entry), inv.text)
			}
			continue
		}
		outs = append(outs, o)
	}
	return outs
}

// ---- loops ----

func (c *FCtx) loopOrdinalOf(pos token.Pos) int {
	return c.loopOrd[pos]
}

// assignedIn computes locals assigned in the body (declared outside it) on paths that can reach the back edge.
// Assignments in a block that ends in return/panic and contains no continue cannot reach the loop head again.
func (e *Env) assignedIn(body ast.Node, extra ...ast.Node) []types.Object {
	return e.assignedIn2(nil, body, extra...)
}

func (e *Env) assignedInSt(st *State, body ast.Node, extra ...ast.Node) []types.Object {
	return e.assignedIn2(st, body, extra...)
}

func (e *Env) assignedIn2(st *State, body ast.Node, extra ...ast.Node) []types.Object {
	seen := map[types.Object]bool{}
	visitedLits := map[*ast.FuncLit]bool{}
	var out []types.Object
	add := func(id *ast.Ident) {
		obj := e.Info.Uses[id]
		if obj == nil {
			return
		}
		if _, ok := obj.(*types.Var); !ok {
			return
		}
		if !seen[obj] {
			seen[obj] = true
			out = append(out, obj)
		}
	}
	hasContinue := func(n ast.Node) bool {
		found := false
		ast.Inspect(n, func(x ast.Node) bool {
			switch y := x.(type) {
			case *ast.BranchStmt:
				if y.Tok == token.CONTINUE || y.Tok == token.GOTO {
					found = true
				}
			case *ast.FuncLit:
				return false
			}
			return !found
		})
		return found
	}
	terminates := func(list []ast.Stmt) bool {
		if len(list) == 0 {
			return false
		}
		switch l := list[len(list)-1].(type) {
		case *ast.ReturnStmt:
			return true
		case *ast.ExprStmt:
			if call, ok := l.X.(*ast.CallExpr); ok {
				if id, ok := call.Fun.(*ast.Ident); ok && id.Name == "panic" {
					return true
				}
			}
		}
		return false
	}
	var visit func(n ast.Node) bool
	visit = func(n ast.Node) bool {
		switch x := n.(type) {
		case *ast.BlockStmt:
			if n != body && terminates(x.List) && !hasContinue(x) {
				return false
			}
		case *ast.AssignStmt:
			for _, l := range x.Lhs {
				l = stripParens(l)
				for {
					// x.f = v on value-typed struct assigns x
					if s, ok := l.(*ast.SelectorExpr); ok {
						if _, isPtr := e.Info.TypeOf(s.X).Underlying().(*types.Pointer); !isPtr {
							l = stripParens(s.X)
							continue
						}
					}
					break
				}
				if id, ok := l.(*ast.Ident); ok {
					add(id)
				}
			}
		case *ast.IncDecStmt:
			if id, ok := stripParens(x.X).(*ast.Ident); ok {
				add(id)
			}
		case *ast.RangeStmt:
			if x.Tok == token.ASSIGN {
				if id, ok := x.Key.(*ast.Ident); ok {
					add(id)
				}
				if id, ok := x.Value.(*ast.Ident); ok {
					add(id)
				}
			}
		case *ast.CallExpr:
			// a call of a local closure: its body may assign captured variables
			if st != nil {
				if id, ok := stripParens(x.Fun).(*ast.Ident); ok {
					if obj := e.Info.Uses[id]; obj != nil {
						if fv, ok := st.vars[obj].(*FuncV); ok {
							if lit, ok := fv.Lit.(*ast.FuncLit); ok && !visitedLits[lit] {
								visitedLits[lit] = true
								ast.Inspect(lit.Body, visit)
							}
						}
					}
				}
			}
		}
		return true
	}
	ast.Inspect(body, visit)
	for _, x := range extra {
		if x != nil {
			ast.Inspect(x, visit)
		}
	}
	return out
}

func (e *Env) execFor(x *ast.ForStmt, st *State, label string) []Outcome {
	if x.Init != nil {
		outs := e.execStmt(x.Init, st)
		if len(outs) != 1 || outs[0].Kind != oNormal {
			panic(outOfReach("complex loop init"))
		}
		st = outs[0].St
	}
	return e.loopCore(st, label, x.Pos(), x.Body, x.Post, func(s *State) *Term {
		if x.Cond == nil {
			return TTrue
		}
		return e.evalCond(x.Cond, s)
	}, nil, []ast.Node{x.Post, x.Cond})
}

// loopCore: cut-point treatment of a loop.
//   assert inv (init); havoc targets; assume inv; [cond true: body; post; assert inv] ; [cond false: exit]
func (e *Env) loopCore(st *State, label string, pos token.Pos, body *ast.BlockStmt, post ast.Stmt,
	cond func(*State) *Term, prelude func(*State), extra []ast.Node) []Outcome {
	c := e.C
	ordinal := c.loopOrd[pos]
	var spec *LoopSpec
	if (e.Top || e.litOfTop()) && c.Contract != nil {
		spec = c.Contract.Loops[ordinal]
	}
	if !e.Top && !e.litOfTop() {
		// loops in inlined callees are not supported (they need their own invariants)
		panic(outOfReach(fmt.Sprintf("loop inside inlined callee %s", e.Name)))
	}
	if spec != nil && spec.Bounded > 0 {
		return e.loopBounded(st, label, pos, body, post, cond, prelude, spec)
	}
	entry := st.clone()
	// 1. invariants hold on entry
	invs := c.loopInvariants(e, spec, ordinal, body.Lbrace)
	for _, inv := range invs {
		g := inv.eval(e, st, entry)
		c.oblige(st, "inv-init", fmt.Sprintf("inv-init(loop %d, %s)", ordinal, inv.label), pos, g, inv.text)
	}
	// 2. havoc
	targets := e.assignedInSt(st, body, extra...)
	hs := st
	var havocked []havockedVar
	for _, obj := range targets {
		cur, ok := e.getVar(hs, obj)
		if !ok {
			continue
		}
		_ = cur
		nv, facts := c.freshValue(obj.Type(), "h_"+obj.Name())
		if fv, isF := cur.(*FuncV); isF {
			nv = fv
			facts = nil
		}
		e.setVar(hs, obj, nv)
		for _, f := range facts {
			hs.assume(f)
		}
		havocked = append(havocked, havockedVar{nv, obj.Type()})
	}
	c.havocLoopHeap(e, hs, body, extra, spec, entry)
	// what a local refers to after some iterations has been allocated
	for _, hv := range havocked {
		c.assumeAllocated(hs, hv.v, hv.t, c.heapGet(hs, "$alloc", SInt))
	}
	// 3. assume invariants
	for _, inv := range invs {
		hs.assume(inv.eval(e, hs, entry))
	}
	var decBefore *Term
	if spec != nil && spec.Decreases != nil {
		decBefore = c.widen(c.evalSpecTerm(e, spec.Decreases.Expr, hs, entry, nil))
	}
	var outs []Outcome
	// 4. body path
	bs := hs.clone()
	if prelude != nil {
		prelude(bs)
	}
	cnd := cond(bs)
	exitSt := hs
	if !cnd.IsFalse() {
		bs.assume(cnd)
		bodyOuts := e.execBlock(body.List, bs)
		for _, o := range bodyOuts {
			switch {
			case o.Kind == oNormal || (o.Kind == oContinue && (o.Label == "" || o.Label == label)):
				s2 := o.St
				if post != nil {
					po := e.execStmt(post, s2)
					if len(po) != 1 {
						panic(outOfReach("complex loop post"))
					}
					s2 = po[0].St
				}
				for _, inv := range invs {
					g := inv.eval(e, s2, entry)
					c.oblige(s2, "inv-pres", fmt.Sprintf("inv-pres(loop %d, %s)", ordinal, inv.label), pos, g, inv.text)
				}
				if decBefore != nil {
					after := c.widen(c.evalSpecTerm(e, spec.Decreases.Expr, s2, entry, nil))
					c.oblige(s2, "dec", fmt.Sprintf("dec(loop %d)", ordinal), pos,
						And(c.ilt(after, decBefore), c.ile(c.idxC(0), decBefore)), spec.Decreases.Text)
				}
			case o.Kind == oBreak && (o.Label == "" || o.Label == label):
				outs = append(outs, Outcome{Kind: oNormal, St: o.St})
			default:
				outs = append(outs, o)
			}
		}
	}
	// 5. exit path
	if !cnd.IsTrue() {
		if prelude != nil {
			// range loops: exit when exhausted; cond evaluated on a throwaway copy
			ex := exitSt
			cn := cond(ex.clone())
			ex.assume(Not(cn))
			outs = append(outs, Outcome{Kind: oNormal, St: ex})
		} else {
			cn := cond(exitSt)
			exitSt.assume(Not(cn))
			outs = append(outs, Outcome{Kind: oNormal, St: exitSt})
		}
	}
	return outs
}

// loopBounded unrolls the loop N times with an unwinding assumption.
func (e *Env) loopBounded(st *State, label string, pos token.Pos, body *ast.BlockStmt, post ast.Stmt,
	cond func(*State) *Term, prelude func(*State), spec *LoopSpec) []Outcome {
	var outs []Outcome
	cur := []*State{st}
	for k := 0; k <= spec.Bounded; k++ {
		var next []*State
		for _, s := range cur {
			bs := s.clone()
			if prelude != nil {
				prelude(bs)
			}
			cn := cond(bs)
			ex := s
			ex.assume(Not(cond(ex.clone())))
			outs = append(outs, Outcome{Kind: oNormal, St: ex})
			if k == spec.Bounded || cn.IsFalse() {
				continue // unwinding assumption: no more iterations
			}
			bs.assume(cn)
			for _, o := range e.execBlock(body.List, bs) {
				switch {
				case o.Kind == oNormal || (o.Kind == oContinue && (o.Label == "" || o.Label == label)):
					s2 := o.St
					if post != nil {
						po := e.execStmt(post, s2)
						s2 = po[0].St
					}
					next = append(next, s2)
				case o.Kind == oBreak && (o.Label == "" || o.Label == label):
					outs = append(outs, Outcome{Kind: oNormal, St: o.St})
				default:
					outs = append(outs, o)
				}
			}
		}
		cur = next
	}
	e.C.note("loop %d unrolled %d times (bounded)", e.C.loopOrd[pos], spec.Bounded)
	return outs
}

func (e *Env) execRange(x *ast.RangeStmt, st *State, label string) []Outcome {
	c := e.C
	xt := e.Info.TypeOf(x.X)
	coll := e.eval(x.X, st)
	// hidden index variable
	idxObj := types.NewVar(x.Pos(), e.Pkg.Types, fmt.Sprintf("range$%d", c.loopOrd[x.Pos()]), types.Typ[types.Int])
	var keyObj, valObj types.Object
	if id, ok := x.Key.(*ast.Ident); ok && id.Name != "_" {
		if x.Tok == token.DEFINE {
			keyObj = e.Info.Defs[id]
		} else {
			keyObj = e.Info.Uses[id]
		}
	}
	if id, ok := x.Value.(*ast.Ident); ok && id.Name != "_" {
		if x.Tok == token.DEFINE {
			valObj = e.Info.Defs[id]
		} else {
			valObj = e.Info.Uses[id]
		}
	}
	switch ut := xt.Underlying().(type) {
	case *types.Slice, *types.Array, *types.Basic, *types.Pointer:
		var sl *SliceV
		var n *Term
		isInt := false
		if b, ok := ut.(*types.Basic); ok && !isString(xt) {
			_ = b
			isInt = true
			nt, _ := coll.(*Term)
			if nt == nil {
				panic(outOfReach("range over non-integer basic"))
			}
			n = c.toIdx(nt, xt)
		} else {
			s, ok := e.asSlice(coll, xt, st)
			if !ok {
				panic(outOfReach("range over unsupported collection"))
			}
			sl = s
			n = sl.Len
		}
		if isString(xt) && valObj != nil {
			panic(outOfReach("range over string runes"))
		}
		st.vars[idxObj] = c.idxC(0)
		// the loop: for idx := 0; idx < n; idx++ { key=idx; val=coll[idx]; body }
		prelude := func(s *State) {
			i := s.vars[idxObj].(*Term)
			if keyObj != nil {
				kv := i
				if c.Mode == ModeBV {
					kv = c.convert(i, types.Typ[types.Int], keyObj.Type())
				}
				e.setVar(s, keyObj, kv)
			}
			if valObj != nil && !isInt {
				s.assume(And(c.ile(c.idxC(0), i), c.ilt(i, n)))
				e.setVar(s, valObj, c.loadElem(s, sl, i))
			}
		}
		cond := func(s *State) *Term {
			i := s.vars[idxObj].(*Term)
			return c.ilt(i, n)
		}
		// implicit invariant 0 <= idx <= n is added through rangeInv
		c.rangeIdx[x.Pos()] = rangeInfo{idx: idxObj, n: n}
		post := &ast.IncDecStmt{X: &ast.Ident{Name: "range$idx", NamePos: x.Pos()}, Tok: token.INC}
		e.Info.Uses[post.X.(*ast.Ident)] = idxObj
		e.Info.Types[post.X] = types.TypeAndValue{Type: types.Typ[types.Int]}
		var extra []ast.Node
		extra = append(extra, post)
		if x.Tok == token.ASSIGN {
			extra = append(extra, x)
		}
		outs := e.loopCore(st, label, x.Pos(), x.Body, post, cond, prelude, extra)
		return outs
	case *types.Map, *types.Chan:
		// non-deterministic number of iterations over opaque elements
		st.vars[idxObj] = c.idxC(0)
		more := func(s *State) *Term { return c.freshVar("more", SBool) }
		prelude := func(s *State) {
			if keyObj != nil {
				v, facts := c.freshValue(keyObj.Type(), "mk_"+keyObj.Name())
				for _, f := range facts {
					s.assume(f)
				}
				e.setVar(s, keyObj, v)
			}
			if valObj != nil {
				v, facts := c.freshValue(valObj.Type(), "mv_"+valObj.Name())
				for _, f := range facts {
					s.assume(f)
				}
				e.setVar(s, valObj, v)
			}
			if _, isChan := ut.(*types.Chan); isChan {
				c.protoChanOp(e, s, x.X, false, x.Pos())
			}
		}
		var extra []ast.Node
		if x.Tok == token.ASSIGN {
			extra = append(extra, x)
		}
		return e.loopCore(st, label, x.Pos(), x.Body, nil, more, prelude, extra)
	}
	panic(outOfReach(fmt.Sprintf("range over %s", xt)))
}

type rangeInfo struct {
	idx types.Object
	n   *Term
}

// ---- switch / select ----

func (e *Env) execSwitch(x *ast.SwitchStmt, st *State, label string) []Outcome {
	c := e.C
	if x.Init != nil {
		outs := e.execStmt(x.Init, st)
		if len(outs) != 1 || outs[0].Kind != oNormal {
			panic(outOfReach("complex switch init"))
		}
		st = outs[0].St
	}
	var tag Value
	var tagT types.Type
	if x.Tag != nil {
		tag = e.eval(x.Tag, st)
		tagT = e.Info.TypeOf(x.Tag)
	}
	var outs []Outcome
	var normals []*State
	cur := st
	var defaultClause *ast.CaseClause
	handle := func(os []Outcome) {
		for _, o := range os {
			switch {
			case o.Kind == oNormal:
				normals = append(normals, o.St)
			case o.Kind == oBreak && (o.Label == "" || o.Label == label):
				normals = append(normals, o.St)
			default:
				outs = append(outs, o)
			}
		}
	}
	for ci, cl := range x.Body.List {
		cc := cl.(*ast.CaseClause)
		if cc.List == nil {
			defaultClause = cc
			continue
		}
		body := cc.Body
		// fallthrough: append the bodies of the following clauses
		for k := ci; len(body) > 0; k++ {
			b, ok := body[len(body)-1].(*ast.BranchStmt)
			if !ok || b.Tok != token.FALLTHROUGH || k+1 >= len(x.Body.List) {
				break
			}
			nb := append([]ast.Stmt{}, body[:len(body)-1]...)
			body = append(nb, x.Body.List[k+1].(*ast.CaseClause).Body...)
		}
		var conds []*Term
		for _, ce := range cc.List {
			if tag == nil {
				conds = append(conds, e.evalCond(ce, cur))
			} else {
				v := e.eval(ce, cur)
				conds = append(conds, c.valueEq(tag, v, tagT))
			}
		}
		cond := Or(conds...)
		if cond.IsFalse() {
			continue
		}
		ts := cur.clone()
		ts.assume(cond)
		handle(e.execBlock(body, ts))
		cur.assume(Not(cond))
		if cond.IsTrue() {
			cur = nil
			break
		}
	}
	if cur != nil {
		if defaultClause != nil {
			handle(e.execBlock(defaultClause.Body, cur))
		} else {
			normals = append(normals, cur)
		}
	}
	if len(normals) > 1 {
		if m := c.mergeStates(normals); m != nil {
			normals = []*State{m}
		}
	}
	for _, n := range normals {
		outs = append(outs, Outcome{Kind: oNormal, St: n})
	}
	return outs
}

func (e *Env) execTypeSwitch(x *ast.TypeSwitchStmt, st *State) []Outcome {
	c := e.C
	// evaluate the operand; each clause is a non-deterministic alternative with a fresh typed value
	var operand ast.Expr
	var bindID *ast.Ident
	switch a := x.Assign.(type) {
	case *ast.AssignStmt:
		bindID = a.Lhs[0].(*ast.Ident)
		operand = a.Rhs[0].(*ast.TypeAssertExpr).X
	case *ast.ExprStmt:
		operand = a.X.(*ast.TypeAssertExpr).X
	}
	if x.Init != nil {
		outs := e.execStmt(x.Init, st)
		st = outs[0].St
	}
	ov := e.eval(operand, st)
	var outs []Outcome
	var normals []*State
	choice := c.freshVar("tsw", SInt)
	for i, cl := range x.Body.List {
		cc := cl.(*ast.CaseClause)
		ts := st.clone()
		ts.assume(Eq(choice, IntC(int64(i))))
		if bindID != nil {
			if obj := e.Info.Implicits[cc]; obj != nil {
				var v Value
				if len(cc.List) == 1 {
					if _, isPtrOrIface := obj.Type().Underlying().(*types.Pointer); isPtrOrIface {
						v = ov
						if t, ok := ov.(*Term); ok {
							ts.assume(Neq(t, IntC(0)))
						}
					} else if _, isI := obj.Type().Underlying().(*types.Interface); isI {
						v = ov
					} else {
						fv, facts := c.freshValue(obj.Type(), "tsv")
						for _, f := range facts {
							ts.assume(f)
						}
						v = fv
					}
				} else {
					v = ov
				}
				ts.vars[obj] = v
			}
		}
		for _, o := range e.execBlock(cc.Body, ts) {
			if o.Kind == oNormal || (o.Kind == oBreak && o.Label == "") {
				normals = append(normals, o.St)
			} else {
				outs = append(outs, o)
			}
		}
	}
	hasDefault := false
	for _, cl := range x.Body.List {
		if cl.(*ast.CaseClause).List == nil {
			hasDefault = true
		}
	}
	if !hasDefault {
		ns := st.clone()
		ns.assume(Eq(choice, IntC(-1)))
		normals = append(normals, ns)
	}
	if len(normals) > 1 {
		if m := c.mergeStates(normals); m != nil {
			normals = []*State{m}
		}
	}
	for _, n := range normals {
		outs = append(outs, Outcome{Kind: oNormal, St: n})
	}
	return outs
}

func (e *Env) execSelect(x *ast.SelectStmt, st *State, label string) []Outcome {
	c := e.C
	var outs []Outcome
	var normals []*State
	choice := c.freshVar("sel", SInt)
	for i, cl := range x.Body.List {
		cc := cl.(*ast.CommClause)
		ts := st.clone()
		ts.assume(Eq(choice, IntC(int64(i))))
		if cc.Comm != nil {
			switch cm := cc.Comm.(type) {
			case *ast.SendStmt:
				sv := e.eval(cm.Value, ts)
				c.protoSendValue(e, ts, cm.Chan, sv)
				c.protoChanOp(e, ts, cm.Chan, true, cm.Pos())
			case *ast.ExprStmt:
				if u, ok := stripParens(cm.X).(*ast.UnaryExpr); ok && u.Op == token.ARROW {
					c.protoChanOp(e, ts, u.X, false, cm.Pos())
				}
			case *ast.AssignStmt:
				if u, ok := stripParens(cm.Rhs[0]).(*ast.UnaryExpr); ok && u.Op == token.ARROW {
					rv := c.protoChanRecvValue(e, ts, u.X, cm.Pos())
					c.protoChanOp(e, ts, u.X, false, cm.Pos())
					for k, l := range cm.Lhs {
						var v Value
						if k == 0 {
							v = rv
						} else {
							v = c.freshVar("ok", SBool)
						}
						if cm.Tok == token.DEFINE {
							if id, ok := l.(*ast.Ident); ok && id.Name != "_" {
								if obj := e.Info.Defs[id]; obj != nil {
									e.setVar(ts, obj, v)
								}
							}
						} else {
							e.assignTo(l, v, ts)
						}
					}
				}
			}
		}
		if ts.dead {
			continue
		}
		for _, o := range e.execBlock(cc.Body, ts) {
			switch {
			case o.Kind == oNormal:
				normals = append(normals, o.St)
			case o.Kind == oBreak && (o.Label == "" || o.Label == label):
				normals = append(normals, o.St)
			default:
				outs = append(outs, o)
			}
		}
	}
	if len(normals) > 1 {
		if m := c.mergeStates(normals); m != nil {
			normals = []*State{m}
		}
	}
	for _, n := range normals {
		outs = append(outs, Outcome{Kind: oNormal, St: n})
	}
	return outs
}

// ---- merging ----

// mergeStates joins states that share a common pc ancestor into one state using ite terms.
func (c *FCtx) mergeStates(sts []*State) *State {
	if len(sts) < 2 {
		return nil
	}
	// common ancestor of pcs
	anc := sts[0].pc
	for _, s := range sts[1:] {
		anc = commonAncestor(anc, s.pc)
	}
	// the branch condition proper is the quantifier-free part of what was assumed since the fork; quantified facts
	// assumed on a branch (callee postconditions, invariants) are kept as separate hypotheses "branch => fact" so
	// that they stay visible to instantiation (path conditions of one fork are mutually exclusive)
	conds := make([]*Term, len(sts))
	quant := make([][]*Term, len(sts))
	for i, s := range sts {
		var ground []*Term
		for _, t := range s.pc.since(anc) {
			if hasQuantifier(t) {
				quant[i] = append(quant[i], t)
			} else {
				ground = append(ground, t)
			}
		}
		conds[i] = And(ground...)
	}
	// defers must agree
	for _, s := range sts[1:] {
		if len(s.defers) != len(sts[0].defers) {
			return nil
		}
		for i := range s.defers {
			if len(s.defers[i]) != len(sts[0].defers[i]) {
				return nil
			}
		}
	}
	m := &State{vars: map[types.Object]Value{}, heap: map[string]*Term{}, pc: anc, defers: sts[0].defers, trace: sts[0].trace}
	// common prefix of the havoc logs
	common := len(sts[0].hav)
	for _, s := range sts[1:] {
		k := 0
		for k < common && k < len(s.hav) && s.hav[k] == sts[0].hav[k] {
			k++
		}
		common = k
	}
	sameEpoch := true
	var extraPrefixes []string
	for _, s := range sts {
		if len(s.hav) != common {
			sameEpoch = false
			for _, h := range s.hav[common:] {
				extraPrefixes = append(extraPrefixes, h.prefixes...)
			}
		}
	}
	m.hav = append([]*havocRec(nil), sts[0].hav[:common]...)
	var mergeRec *havocRec
	if !sameEpoch {
		mergeRec = &havocRec{name: c.freshName("hm"), prefixes: extraPrefixes}
		m.hav = append(m.hav, mergeRec)
	}
	// name the branch conditions to keep terms small
	named := make([]*Term, len(conds))
	for i, cd := range conds {
		named[i] = c.define("br", cd)
	}
	m.pc = m.pc.push(Or(named...))
	for i, qs := range quant {
		for _, q := range qs {
			m.pc = m.pc.push(Implies(named[i], q))
		}
	}
	// heap
	keys := map[string]bool{}
	for _, s := range sts {
		for k := range s.heap {
			keys[k] = true
		}
	}
	if !sameEpoch {
		for k := range c.keySorts {
			if !isGhostKey(k) && mergeRec.covers(k) {
				keys[k] = true
			}
		}
	}
	var ks []string
	for k := range keys {
		ks = append(ks, k)
	}
	sort.Strings(ks)
	for _, k := range ks {
		var vals []*Term
		same := true
		var srt Sort
		for _, s := range sts {
			if v, ok := s.heap[k]; ok {
				srt = v.Sort
			}
		}
		if srt == "" {
			srt = c.keySorts[k]
		}
		if srt == "" {
			continue
		}
		for _, s := range sts {
			v := c.heapGet(s, k, srt)
			vals = append(vals, v)
			if !termEq(v, vals[0]) {
				same = false
			}
		}
		if same {
			m.heap[k] = vals[0]
			continue
		}
		m.heap[k] = c.define(k, iteChain(named, vals))
	}
	// vars
	objs := map[types.Object]bool{}
	for _, s := range sts {
		for o := range s.vars {
			objs[o] = true
		}
	}
	for o := range objs {
		var vals []Value
		partial := false
		for _, s := range sts {
			v, has := s.vars[o]
			if !has {
				partial = true
				// declared in a branch only: out of Go scope after the join, kept (with an arbitrary value on the
				// other paths) so that specifications guarded by the branch condition can still name it
				if _, isVar := o.(*types.Var); isVar {
					fv, _ := c.freshValue(o.Type(), "nl_"+o.Name())
					v = fv
				} else {
					v = nil
				}
			}
			vals = append(vals, v)
		}
		if vals[0] == nil {
			continue
		}
		mv, good := c.mergeValues(named, vals)
		if !good {
			if partial {
				continue
			}
			return nil
		}
		m.vars[o] = mv
	}
	return m
}

func commonAncestor(a, b *PC) *PC {
	for a.length() > b.length() {
		a = a.parent
	}
	for b.length() > a.length() {
		b = b.parent
	}
	for a != b {
		a, b = a.parent, b.parent
	}
	return a
}

func iteChain(conds []*Term, vals []*Term) *Term {
	r := vals[len(vals)-1]
	for i := len(vals) - 2; i >= 0; i-- {
		r = Ite(conds[i], vals[i], r)
	}
	return r
}

func (c *FCtx) mergeValues(conds []*Term, vals []Value) (Value, bool) {
	switch v0 := vals[0].(type) {
	case *Term:
		ts := make([]*Term, len(vals))
		for i, v := range vals {
			t, ok := v.(*Term)
			if !ok {
				return nil, false
			}
			ts[i] = t
		}
		for i := range ts {
			if ts[i].Sort != ts[0].Sort {
				a, b := coerce2(ts[i], ts[0])
				ts[i] = a
				ts[0] = b
				if ts[i].Sort != ts[0].Sort {
					return nil, false
				}
			}
		}
		return iteChain(conds, ts), true
	case *SliceV:
		parts := make([][]*Term, 4)
		for _, v := range vals {
			s, ok := v.(*SliceV)
			if !ok {
				return nil, false
			}
			parts[0] = append(parts[0], s.Base)
			parts[1] = append(parts[1], s.Off)
			parts[2] = append(parts[2], s.Len)
			parts[3] = append(parts[3], s.Cap)
		}
		return &SliceV{Base: iteChain(conds, parts[0]), Off: iteChain(conds, parts[1]), Len: iteChain(conds, parts[2]),
			Cap: iteChain(conds, parts[3]), Elem: v0.Elem, Str: v0.Str}, true
	case *StructV:
		out := &StructV{Typ: v0.Typ, F: map[string]Value{}}
		for name := range v0.F {
			var fs []Value
			for _, v := range vals {
				s, ok := v.(*StructV)
				if !ok {
					return nil, false
				}
				fv, has := s.F[name]
				if !has {
					return nil, false
				}
				fs = append(fs, fv)
			}
			mv, ok := c.mergeValues(conds, fs)
			if !ok {
				return nil, false
			}
			out.F[name] = mv
		}
		return out, true
	case *FuncV:
		for _, v := range vals {
			if f, ok := v.(*FuncV); !ok || f.Lit != v0.Lit {
				return nil, false
			}
		}
		return v0, true
	case *KeyV:
		var rs, ns []*Term
		for _, v := range vals {
			k, ok := v.(*KeyV)
			if !ok {
				return nil, false
			}
			rs = append(rs, k.Rank)
			ns = append(ns, k.Nil)
		}
		var ls []*Term
		for _, v := range vals {
			ls = append(ls, v.(*KeyV).Len)
		}
		return &KeyV{Rank: iteChain(conds, rs), Nil: iteChain(conds, ns), Len: iteChain(conds, ls)}, true
	case *IKeyV:
		var us []Value
		var nums []*Term
		for _, v := range vals {
			k, ok := v.(*IKeyV)
			if !ok {
				return nil, false
			}
			us = append(us, k.U)
			nums = append(nums, k.Num)
		}
		mu, ok := c.mergeValues(conds, us)
		if !ok {
			return nil, false
		}
		return &IKeyV{U: mu.(*KeyV), Num: iteChain(conds, nums)}, true
	case *TupleV:
		out := &TupleV{}
		for i := range v0.Vs {
			var fs []Value
			for _, v := range vals {
				t, ok := v.(*TupleV)
				if !ok || len(t.Vs) != len(v0.Vs) {
					return nil, false
				}
				fs = append(fs, t.Vs[i])
			}
			mv, ok := c.mergeValues(conds, fs)
			if !ok {
				return nil, false
			}
			out.Vs = append(out.Vs, mv)
		}
		return out, true
	case nil:
		return nil, true
	}
	return nil, false
}

// ---- havoc ----

type havockedVar struct {
	v Value
	t types.Type
}

// havocAll forgets the whole non-ghost heap.
func (c *FCtx) havocAll(st *State, why string) {
	old := c.heapGet(st, "$alloc", SInt)
	for k := range st.heap {
		if !isGhostKey(k) {
			delete(st.heap, k)
		}
	}
	st.hav = append(st.hav, &havocRec{name: c.freshName("hv"), prefixes: []string{"*"}})
	// allocation only grows
	n := c.freshVar("$alloc", SInt)
	st.heap["$alloc"] = n
	st.assume(IGe(n, old))
}

func isGhostKey(k string) bool {
	return strings.HasPrefix(k, "L$") || strings.HasPrefix(k, "G$") || strings.HasPrefix(k, "E$") || k == "$alloc"
}

// ghost counters (events, call counts) are part of the lock/protocol state a loop may change
func isCounterKey(k string) bool {
	return strings.HasPrefix(k, "E$") || strings.HasPrefix(k, "G$calls.")
}

// havocKeys forgets the listed heap keys.
func (c *FCtx) havocKeys(st *State, keys []string) {
	for _, k := range keys {
		srt, ok := c.keySorts[k]
		if !ok {
			if v, has := st.heap[k]; has {
				srt = v.Sort
			} else {
				continue
			}
		}
		st.heap[k] = c.freshVar(k, srt)
	}
}

func hasQuantifier(t *Term) bool {
	if t.Op == "forall" || t.Op == "exists" {
		return true
	}
	for _, a := range t.Args {
		if hasQuantifier(a) {
			return true
		}
	}
	return false
}
