package main

// Effect inference: heap keys written and locks touched by each function, over a call graph in which
// interface calls and calls through function values are resolved by class-hierarchy analysis over the
// loaded packages (code outside them cannot write their unexported state).

import (
	"fmt"
	"go/ast"
	"go/token"
	"go/types"
	"strings"
)

type Effects struct {
	Writes  map[string]bool
	Locks   map[string]bool
	Unknown bool
	Why     string
	// Unwinds: the function may leave by a panic that is recovered further up the stack (contract flag "unwinds" on
	// the function that raises it, closed over the call graph): what a caller holds at the call must be given back
	// by its deferred calls
	Unwinds bool
}

func newEffects() *Effects { return &Effects{Writes: map[string]bool{}, Locks: map[string]bool{}} }

func (e *Effects) merge(o *Effects) bool {
	if o == nil {
		return false
	}
	ch := false
	for k := range o.Writes {
		if !e.Writes[k] {
			e.Writes[k] = true
			ch = true
		}
	}
	for k := range o.Locks {
		if !e.Locks[k] {
			e.Locks[k] = true
			ch = true
		}
	}
	if o.Unknown && !e.Unknown {
		e.Unknown = true
		e.Why = o.Why
		ch = true
	}
	if o.Unwinds && !e.Unwinds {
		e.Unwinds = true
		ch = true
	}
	return ch
}

// mergeProtocol takes only the protocol state (locks, events, call counters) of o.
func (e *Effects) mergeProtocol(o *Effects) {
	if o == nil {
		return
	}
	for k := range o.Locks {
		e.Locks[k] = true
	}
}

type cgNode struct {
	name    string
	fi      *FuncInfo
	lit     *ast.FuncLit
	info    *types.Info
	sig     *types.Signature
	direct  *Effects
	callees map[*cgNode]bool
	eff     *Effects
	dyn     []dynCall
	ghost   map[string]bool // ghost globals assigned by the contract's at-clauses (closed over static calls)
}

type dynCall struct {
	method string
	sig    *types.Signature
	recvT  types.Type
	info   *types.Info // for calls through a function value: where the callee expression lives
	fun    ast.Expr    // the callee expression
	// the interface method has an assumed write set ("effects" clause of an interface contract): a body scan takes
	// that set for the heap (as the call site does) and only the protocol state (locks, events, call counters) from
	// the possible targets. Function summaries in the call graph stay conservative and take everything.
	assumedWrites bool
}

type callGraph struct {
	byFunc   map[*types.Func]*cgNode
	byLit    map[*ast.FuncLit]*cgNode
	nodes    []*cgNode
	values   []*cgNode // functions and literals used as values
	byMethod map[string][]*cgNode
}

func (w *World) graph() *callGraph {
	if w.cg != nil {
		return w.cg
	}
	g := &callGraph{byFunc: map[*types.Func]*cgNode{}, byLit: map[*ast.FuncLit]*cgNode{}, byMethod: map[string][]*cgNode{}}
	w.cg = g
	// the graph may be asked for first from inside a loop-body scan (bodyWrites), whose "skip terminating blocks"
	// and "no callee effects" modes are about that one body only: they must not leak into the whole-program scan
	savedSkip, savedNoCallee := w.skipTerminating, w.noCalleeEffects
	w.skipTerminating, w.noCalleeEffects = nil, false
	defer func() { w.skipTerminating, w.noCalleeEffects = savedSkip, savedNoCallee }()
	for _, fi := range w.Funcs {
		if fi.Obj == nil {
			continue
		}
		n := &cgNode{name: fi.Key, fi: fi, info: fi.Pkg.TypesInfo, sig: fi.Obj.Type().(*types.Signature), callees: map[*cgNode]bool{}}
		g.byFunc[fi.Obj] = n
		g.nodes = append(g.nodes, n)
		if n.sig.Recv() != nil {
			g.byMethod[fi.Obj.Name()] = append(g.byMethod[fi.Obj.Name()], n)
		}
	}
	// literals
	for _, fi := range w.Funcs {
		info := fi.Pkg.TypesInfo
		fi := fi
		// literals invoked on the spot (f := func(){}(), defer func(){}(), go func(){}()) are not values
		immediate := map[*ast.FuncLit]bool{}
		ast.Inspect(fi.Decl.Body, func(x ast.Node) bool {
			if call, ok := x.(*ast.CallExpr); ok {
				if lit, ok := stripParens(call.Fun).(*ast.FuncLit); ok {
					immediate[lit] = true
				}
			}
			return true
		})
		ast.Inspect(fi.Decl.Body, func(x ast.Node) bool {
			if lit, ok := x.(*ast.FuncLit); ok {
				sig, _ := info.TypeOf(lit).(*types.Signature)
				n := &cgNode{name: fmt.Sprintf("%s$lit%d", fi.Key, fi.Pkg.Fset.Position(lit.Pos()).Line), lit: lit, info: info, sig: sig, callees: map[*cgNode]bool{}}
				g.byLit[lit] = n
				g.nodes = append(g.nodes, n)
				if !immediate[lit] {
					g.values = append(g.values, n)
				}
			}
			return true
		})
	}
	// named functions used as values
	for _, fi := range w.Funcs {
		info := fi.Pkg.TypesInfo
		called := map[ast.Expr]bool{}
		ast.Inspect(fi.Decl.Body, func(x ast.Node) bool {
			if call, ok := x.(*ast.CallExpr); ok {
				called[stripParens(call.Fun)] = true
			}
			return true
		})
		selIdents := map[*ast.Ident]bool{}
		ast.Inspect(fi.Decl.Body, func(x ast.Node) bool {
			if sx, ok := x.(*ast.SelectorExpr); ok {
				selIdents[sx.Sel] = true
			}
			return true
		})
		ast.Inspect(fi.Decl.Body, func(x ast.Node) bool {
			var fn *types.Func
			switch y := x.(type) {
			case *ast.Ident:
				if called[y] || selIdents[y] {
					return true
				}
				fn, _ = info.Uses[y].(*types.Func)
			case *ast.SelectorExpr:
				if called[y] {
					return true
				}
				if sel := info.Selections[y]; sel != nil {
					fn, _ = sel.Obj().(*types.Func)
				} else {
					fn, _ = info.Uses[y.Sel].(*types.Func)
				}
				if fn != nil {
					if n := g.byFunc[fn]; n != nil {
						g.values = append(g.values, n)
					}
				}
				return true
			}
			if fn != nil {
				if n := g.byFunc[fn]; n != nil {
					g.values = append(g.values, n)
				}
			}
			return true
		})
	}
	// direct effects and edges
	for _, n := range g.nodes {
		n := n
		var body ast.Node
		if n.fi != nil {
			body = n.fi.Decl.Body
		} else {
			body = n.lit.Body
		}
		n.direct = newEffects()
		w.scanDirect(n.info, body, n.direct, func(c *cgNode) { n.callees[c] = true }, func(d dynCall) { n.dyn = append(n.dyn, d) }, n.lit)
		// ghost globals assigned by the "at" clauses of the function's contract are part of its write set: a caller
		// must not keep what it knew about them across the call
		if n.fi != nil && w.Specs != nil {
			if ct := w.Specs.ByKey[n.fi.Key]; ct != nil {
				if ct.Flags["unwinds"] != "" {
					n.direct.Unwinds = true
				}
				for _, at := range ct.Ats {
					for _, cl := range at.Clauses {
						if cl.Kind != "ghost" {
							continue
						}
						if k := strings.Index(cl.Text, "="); k > 0 {
							name := strings.TrimSpace(cl.Text[:k])
							if _, ok := w.Specs.GhostVars[name]; ok {
								if n.ghost == nil {
									n.ghost = map[string]bool{}
								}
								n.ghost["G$"+name] = true
							}
						}
					}
				}
			}
		}
	}
	// ghost globals travel along static call edges only: a ghost history belongs to one activation of the function
	// whose contract keeps it, and re-entering that function through interface dispatch from inside its own callees is
	// not modelled (stated in DESIGN.md)
	for changed := true; changed; {
		changed = false
		for _, n := range g.nodes {
			for c := range n.callees {
				for k := range c.ghost {
					if !n.ghost[k] {
						if n.ghost == nil {
							n.ghost = map[string]bool{}
						}
						n.ghost[k] = true
						changed = true
					}
				}
			}
		}
	}
	w.ff = w.buildFVFlow()
	for _, n := range g.nodes {
		for _, d := range n.dyn {
			for _, t := range w.resolveDyn(d) {
				n.callees[t] = true
			}
		}
	}
	// fixpoint
	for _, n := range g.nodes {
		n.eff = newEffects()
		n.eff.merge(n.direct)
	}

	for changed := true; changed; {
		changed = false
		for _, n := range g.nodes {
			for c := range n.callees {
				if n.eff.merge(c.eff) {
					changed = true
				}
			}
		}
	}
	return g
}

func sameSig(a, b *types.Signature) bool {
	if a == nil || b == nil {
		return false
	}
	return types.Identical(a.Params(), b.Params()) && types.Identical(a.Results(), b.Results()) && a.Variadic() == b.Variadic()
}

func (w *World) resolveDyn(d dynCall) []*cgNode {
	g := w.cg
	var out []*cgNode
	if d.method != "" {
		var it *types.Interface
		if d.recvT != nil {
			it, _ = d.recvT.Underlying().(*types.Interface)
		}
		for _, n := range g.byMethod[d.method] {
			if !sameSig(n.sig, d.sig) {
				continue
			}
			if it != nil {
				rt := n.sig.Recv().Type()
				if !w.mayBeBehind(rt, it) {
					if p, ok := rt.(*types.Pointer); !ok || !w.mayBeBehind(p.Elem(), it) {
						_ = p
						continue
					}
				}
			}
			out = append(out, n)
		}
		return out
	}
	// a call through a function value: where the value comes from, if the flow analysis can tell
	if d.fun != nil && w.ff != nil {
		src := w.fvSources(w.ff, d.info, d.fun)
		if !src.top {
			for n := range src.nodes {
				out = append(out, n)
			}
			return out
		}
	}
	for _, n := range g.values {
		if sameSig(n.sig, d.sig) {
			out = append(out, n)
		}
	}
	return out
}

func (w *World) isPure(fn *types.Func) bool {
	if fn.Pkg() == nil {
		return true // error.Error etc.
	}
	if fi := w.ByObj[fn]; fi != nil {
		if ct := w.Specs.ByKey[fi.Key]; ct != nil && ct.Flags["pure"] != "" {
			return true
		}
		eff := w.effectsOf(fn)
		return eff != nil && !eff.Unknown && len(eff.Writes) == 0 && len(eff.Locks) == 0
	}
	// code outside the loaded packages cannot write their unexported state; what it does to memory handed to it
	// is described by the library models and the assumed contracts
	return false
}

func (w *World) effectsOf(fn *types.Func) *Effects {
	g := w.graph()
	if n := g.byFunc[fn]; n != nil {
		return n.eff
	}
	return nil
}

// effectsOfCall: effects of calling fn (possibly an interface method or external function).
func (w *World) effectsOfCall(info *types.Info, call *ast.CallExpr) *Effects {
	w.graph()
	eff := newEffects()
	w.callEffects(info, call, eff, func(c *cgNode) {
		eff.merge(c.eff)
		for k := range c.ghost {
			eff.Writes[k] = true
		}
	}, func(d dynCall) {
		for _, t := range w.resolveDyn(d) {
			if d.assumedWrites {
				eff.mergeProtocol(t.eff)
			} else {
				eff.merge(t.eff)
			}
		}
	})
	// the counter of this very call is advanced by the caller after the call: it is not part of the callee's effect
	// unless the callee (or one of its possible targets) makes such a call itself
	if fn := staticCallee(info, call); fn != nil {
		own := ""
		if fi := w.ByObj[fn]; fi != nil {
			own = "G$calls." + fi.Short
		} else {
			own = "G$calls." + extKey(fn)
		}
		if eff.Locks[own] {
			inner := newEffects()
			w.callEffects(info, call, newEffects(), func(c *cgNode) { inner.merge(c.eff) }, func(d dynCall) {
				for _, t := range w.resolveDyn(d) {
					inner.merge(t.eff)
				}
			})
			if !inner.Locks[own] {
				delete(eff.Locks, own)
			}
		}
	}
	// closures passed as arguments may be run by the callee
	for _, a := range call.Args {
		if lit, ok := stripParens(a).(*ast.FuncLit); ok {
			if n := w.cg.byLit[lit]; n != nil {
				eff.merge(n.eff)
			}
		}
	}
	return eff
}

func staticCallee(info *types.Info, call *ast.CallExpr) *types.Func {
	switch f := stripParens(call.Fun).(type) {
	case *ast.Ident:
		fn, _ := info.Uses[f].(*types.Func)
		return fn
	case *ast.SelectorExpr:
		if sel := info.Selections[f]; sel != nil {
			fn, _ := sel.Obj().(*types.Func)
			return fn
		}
		fn, _ := info.Uses[f.Sel].(*types.Func)
		return fn
	}
	return nil
}

// bodyWrites: effects of a loop body on paths that can reach the back edge.
func (w *World) bodyWrites(e *Env, body *ast.BlockStmt) *Effects {
	w.skipTerminating = body
	defer func() { w.skipTerminating = nil }()
	return w.scanEffects(e.Info, body)
}

// scanEffects: effects of a piece of code including everything it may call.
func (w *World) scanEffects(info *types.Info, body ast.Node) *Effects {
	w.graph()
	eff := newEffects()
	if body == nil {
		return eff
	}
	w.scanDirect(info, body, eff, func(c *cgNode) {
		if !w.noCalleeEffects {
			eff.merge(c.eff)
			for k := range c.ghost {
				eff.Writes[k] = true
			}
		}
	}, func(d dynCall) {
		if w.noCalleeEffects {
			return
		}
		for _, t := range w.resolveDyn(d) {
			if d.assumedWrites {
				eff.mergeProtocol(t.eff)
			} else {
				eff.merge(t.eff)
			}
		}
	}, nil)
	return eff
}

func blockTerminates(x *ast.BlockStmt) bool {
	if len(x.List) == 0 {
		return false
	}
	switch l := x.List[len(x.List)-1].(type) {
	case *ast.ReturnStmt:
	case *ast.ExprStmt:
		call, ok := l.X.(*ast.CallExpr)
		if !ok {
			return false
		}
		if id, ok := call.Fun.(*ast.Ident); !ok || id.Name != "panic" {
			return false
		}
	default:
		return false
	}
	found := false
	ast.Inspect(x, func(n ast.Node) bool {
		switch y := n.(type) {
		case *ast.BranchStmt:
			if y.Tok == token.CONTINUE || y.Tok == token.GOTO {
				found = true
			}
		case *ast.FuncLit:
			return false
		}
		return !found
	})
	return !found
}

func fieldKeyOf(info *types.Info, sx *ast.SelectorExpr) (string, bool, types.Type) {
	sel := info.Selections[sx]
	if sel == nil || sel.Kind() != types.FieldVal {
		return "", false, nil
	}
	curT := sel.Recv()
	heap := false
	if _, isPtr := curT.Underlying().(*types.Pointer); isPtr {
		heap = true
	}
	idx := sel.Index()
	for k, fi := range idx {
		s := structOf(curT)
		if s == nil {
			return "", false, nil
		}
		f := s.Field(fi)
		if k == len(idx)-1 {
			owner := curT
			if p, ok := owner.Underlying().(*types.Pointer); ok {
				owner = p.Elem()
			}
			return "F$" + structKey(owner) + "." + f.Name(), heap, f.Type()
		}
		curT = f.Type()
		if _, isPtr := curT.Underlying().(*types.Pointer); isPtr {
			heap = true
		}
	}
	return "", false, nil
}

// rootIsHeap reports whether an lvalue expression designates heap storage (vs. a value-typed local).
func rootIsHeap(info *types.Info, x ast.Expr) bool {
	x = stripParens(x)
	switch y := x.(type) {
	case *ast.Ident:
		if v, ok := info.Uses[y].(*types.Var); ok && v.Pkg() != nil && v.Parent() == v.Pkg().Scope() {
			return true
		}
		return false
	case *ast.SelectorExpr:
		if sel := info.Selections[y]; sel != nil {
			if _, isPtr := sel.Recv().Underlying().(*types.Pointer); isPtr {
				return true
			}
			curT := sel.Recv()
			for _, fi := range sel.Index()[:len(sel.Index())-1] {
				s := structOf(curT)
				if s == nil {
					return true
				}
				curT = s.Field(fi).Type()
				if _, isPtr := curT.Underlying().(*types.Pointer); isPtr {
					return true
				}
			}
			return rootIsHeap(info, y.X)
		}
		return true // pkg.Var
	case *ast.IndexExpr:
		t := info.TypeOf(y.X)
		if _, isArr := t.Underlying().(*types.Array); isArr {
			return rootIsHeap(info, y.X)
		}
		return true
	case *ast.StarExpr:
		return true
	}
	return true
}

// scanDirect collects the effects written directly in body, reports static callees and dynamic call sites.
// Nested function literals are separate nodes: they are reported as callees (conservatively: the enclosing
// code may run them), except `self` (the literal being scanned).
func (w *World) scanDirect(info *types.Info, body ast.Node, eff *Effects, callee func(*cgNode), dyn func(dynCall), self *ast.FuncLit) {
	g := w.cg
	lhs := func(x ast.Expr) {
		x = stripParens(x)
		switch y := x.(type) {
		case *ast.Ident:
			if v, ok := info.Uses[y].(*types.Var); ok && v.Pkg() != nil && v.Parent() == v.Pkg().Scope() {
				eff.Writes["V$"+v.Pkg().Name()+"."+v.Name()] = true
			}
		case *ast.SelectorExpr:
			if key, _, ft := fieldKeyOf(info, y); key != "" {
				if rootIsHeap(info, y) {
					eff.Writes[key] = true
					if ft != nil {
						if _, isStruct := ft.Underlying().(*types.Struct); isStruct {
							eff.Writes["F$"+structKey(ft)] = true
						}
					}
				}
			} else if v, ok := info.Uses[y.Sel].(*types.Var); ok && v.Pkg() != nil {
				eff.Writes["V$"+v.Pkg().Name()+"."+v.Name()] = true
			}
		case *ast.IndexExpr:
			t := info.TypeOf(y.X)
			switch u := t.Underlying().(type) {
			case *types.Slice:
				eff.Writes["M$"+typeKey(u.Elem())] = true
			case *types.Array:
				eff.Writes["M$"+typeKey(u.Elem())] = true
			case *types.Pointer:
				if a, ok := u.Elem().Underlying().(*types.Array); ok {
					eff.Writes["M$"+typeKey(a.Elem())] = true
				}
			}
		case *ast.StarExpr:
			t := info.TypeOf(y.X)
			if p, ok := t.Underlying().(*types.Pointer); ok {
				if _, isStruct := p.Elem().Underlying().(*types.Struct); isStruct {
					eff.Writes["F$"+structKey(p.Elem())] = true
				} else {
					eff.Writes["P$"+typeKey(p.Elem())] = true
				}
			}
		}
	}
	skipRoot := w.skipTerminating
	ast.Inspect(body, func(n ast.Node) bool {
		switch x := n.(type) {
		case *ast.FuncLit:
			if x == self {
				return true
			}
			if g != nil {
				if ln := g.byLit[x]; ln != nil {
					callee(ln)
				}
			}
			return false
		case *ast.BlockStmt:
			if skipRoot != nil && x != skipRoot && blockTerminates(x) {
				return false
			}
		case *ast.AssignStmt:
			if x.Tok != token.DEFINE {
				for _, l := range x.Lhs {
					lhs(l)
				}
			}
		case *ast.IncDecStmt:
			lhs(x.X)
		case *ast.RangeStmt:
			if t := info.TypeOf(x.X); t != nil {
				if _, isChan := t.Underlying().(*types.Chan); isChan {
					w.chanEffect(info, x.X, eff, "recv")
				}
			}
			if x.Tok == token.ASSIGN {
				if x.Key != nil {
					lhs(x.Key)
				}
				if x.Value != nil {
					lhs(x.Value)
				}
			}
		case *ast.SendStmt:
			w.chanEffect(info, x.Chan, eff, "send")
		case *ast.UnaryExpr:
			if x.Op == token.ARROW {
				w.chanEffect(info, x.X, eff, "recv")
			}
			if x.Op == token.AND {
				if id, ok := stripParens(x.X).(*ast.Ident); ok {
					if v, ok := info.Uses[id].(*types.Var); ok {
						if _, isStruct := v.Type().Underlying().(*types.Struct); !isStruct {
							eff.Writes["P$"+typeKey(v.Type())] = true
						}
					}
				}
			}
		case *ast.GoStmt:
			return false // another thread
		case *ast.CallExpr:
			w.callEffects(info, x, eff, callee, dyn)
		}
		return true
	})
}

// chanEffect: a send advances the send counters of a declared event channel, a receive its receive counters.
func (w *World) chanEffect(info *types.Info, ch ast.Expr, eff *Effects, dir string) {
	sx, ok := stripParens(ch).(*ast.SelectorExpr)
	if !ok {
		return
	}
	key, _, _ := fieldKeyOf(info, sx)
	if key == "" {
		return
	}
	name := strings.TrimPrefix(key, "F$")
	if d := w.chanDecl(name); d != nil {
		if d.Kind == "lock" {
			eff.Locks["L$"+name] = true
		} else {
			for _, sfx := range []string{"", "T", "F"} {
				eff.Locks["E$"+name+"$"+dir+sfx] = true
			}
		}
	}
	for _, d := range w.Specs.Decls {
		if d.Kind == "handoff" {
			f := strings.Fields(d.Text)
			if len(f) >= 2 && (f[0] == name || d.PkgName+"."+f[0] == name) {
				lk := f[1]
				if strings.Count(lk, ".") == 1 {
					lk = d.PkgName + "." + lk
				}
				eff.Locks["L$"+lk] = true
			}
		}
	}
}

func (w *World) callEffects(info *types.Info, call *ast.CallExpr, eff *Effects, callee func(*cgNode), dyn func(dynCall)) {
	g := w.cg
	if tv, ok := info.Types[call.Fun]; ok && tv.IsType() {
		return
	}
	fun := stripParens(call.Fun)
	var fn *types.Func
	var recvIface bool
	var recvExpr ast.Expr
	var recvT types.Type
	dynSig := func() {
		if t := info.TypeOf(call.Fun); t != nil {
			if sig, ok := t.Underlying().(*types.Signature); ok {
				dyn(dynCall{sig: sig, info: info, fun: call.Fun})
			}
		}
	}
	switch f := fun.(type) {
	case *ast.Ident:
		switch o := info.Uses[f].(type) {
		case *types.Builtin:
			switch o.Name() {
			case "copy", "append":
				t := info.TypeOf(call.Args[0])
				if s, ok := t.Underlying().(*types.Slice); ok {
					eff.Writes["M$"+typeKey(s.Elem())] = true
				}
			}
			return
		case *types.Func:
			fn = o
		case *types.Var:
			dynSig()
			return
		default:
			return
		}
	case *ast.SelectorExpr:
		if sel := info.Selections[f]; sel != nil {
			if sel.Kind() == types.MethodVal {
				fn = sel.Obj().(*types.Func)
				_, recvIface = sel.Recv().Underlying().(*types.Interface)
				recvExpr = f.X
				recvT = sel.Recv()
			} else {
				dynSig()
				return
			}
		} else if o, ok := info.Uses[f.Sel].(*types.Func); ok {
			fn = o
		} else {
			return
		}
	case *ast.FuncLit:
		return // reported as a nested literal
	default:
		dynSig()
		return
	}
	full := fn.FullName()
	switch full {
	case "(*sync.Mutex).Lock", "(*sync.RWMutex).Lock", "(*sync.Mutex).Unlock", "(*sync.RWMutex).Unlock",
		"(*sync.RWMutex).RLock", "(*sync.RWMutex).RUnlock", "(*sync.Mutex).TryLock":
		rx := stripParens(recvExpr)
		if sx, ok := rx.(*ast.SelectorExpr); ok {
			if key, _, _ := fieldKeyOf(info, sx); key != "" {
				p := "L$"
				if strings.HasPrefix(fn.Name(), "R") {
					p = "L$R$"
				}
				eff.Locks[p+strings.TrimPrefix(key, "F$")] = true
				return
			}
		}
		eff.Locks["L$local."+exprString(recvExpr)] = true
		return
	}
	if strings.HasPrefix(full, "sync/atomic.") {
		if len(call.Args) > 0 && !strings.HasPrefix(fn.Name(), "Load") {
			if u, ok := stripParens(call.Args[0]).(*ast.UnaryExpr); ok && u.Op == token.AND {
				if sx, ok := stripParens(u.X).(*ast.SelectorExpr); ok {
					if key, _, _ := fieldKeyOf(info, sx); key != "" {
						eff.Writes[key] = true
						return
					}
				}
			}
			eff.Writes["P$int32"] = true
			eff.Writes["P$int64"] = true
			eff.Writes["P$uint32"] = true
			eff.Writes["P$uint64"] = true
		}
		return
	}
	if strings.HasPrefix(full, "(encoding/binary.littleEndian).Put") || strings.HasPrefix(full, "encoding/binary.Put") ||
		full == "io.ReadFull" || full == "io.ReadAtLeast" || strings.HasPrefix(full, "github.com/golang/snappy.") {
		eff.Writes["M$uint8"] = true
		if full == "io.ReadFull" || full == "io.ReadAtLeast" {
			if len(call.Args) > 0 {
				// the reader argument is an interface value: its Read may be ours
				dyn(dynCall{method: "Read", sig: readSig})
			}
		}
		return
	}
	if w.countedExt(extKey(fn)) {
		eff.Locks["G$calls."+extKey(fn)] = true
	}
	if recvIface {
		assumed := false
		if n := namedOf(recvT); n != nil && n.Obj().Pkg() != nil {
			key := "iface:" + n.Obj().Pkg().Name() + "." + n.Obj().Name() + "." + fn.Name()
			if ct := w.Specs.ByKey[key]; ct != nil {
				if wr := ct.Flags["effects"]; wr != "" {
					for _, k := range strings.Fields(wr) {
						eff.Writes[k] = true
					}
					assumed = true
				}
			}
		}
		// io.Reader / io.ReaderAt style interfaces fill caller memory
		switch fn.Name() {
		case "Read", "ReadAt", "ReadByte", "ReadFull":
			eff.Writes["M$uint8"] = true
		}
		dyn(dynCall{method: fn.Name(), sig: fn.Type().(*types.Signature), recvT: recvT, assumedWrites: assumed})
		return
	}
	if g != nil {
		if n := g.byFunc[fn]; n != nil {
			if n.fi != nil && w.countedCall(n.fi) {
				eff.Locks["G$calls."+n.fi.Short] = true
			}
			callee(n)
			return
		}
	}
	if ct := w.Specs.ByKey["iface:"+extKey(fn)]; ct != nil {
		if wr := ct.Flags["effects"]; wr != "" {
			for _, k := range strings.Fields(wr) {
				eff.Writes[k] = true
			}
		}
	}
	// other external code: may call back through function-typed or interface-typed arguments
	for _, a := range call.Args {
		t := info.TypeOf(a)
		if t == nil {
			continue
		}
		if sig, ok := t.Underlying().(*types.Signature); ok {
			if _, isLit := stripParens(a).(*ast.FuncLit); !isLit {
				dyn(dynCall{sig: sig})
			}
		}
		if it, ok := t.Underlying().(*types.Interface); ok {
			for i := 0; i < it.NumMethods(); i++ {
				m := it.Method(i)
				dyn(dynCall{method: m.Name(), sig: m.Type().(*types.Signature)})
			}
		}
	}
}

var readSig = func() *types.Signature {
	bs := types.NewSlice(types.Typ[types.Uint8])
	errT := types.Universe.Lookup("error").Type()
	return types.NewSignatureType(nil, nil, nil,
		types.NewTuple(types.NewVar(token.NoPos, nil, "p", bs)),
		types.NewTuple(types.NewVar(token.NoPos, nil, "n", types.Typ[types.Int]), types.NewVar(token.NoPos, nil, "err", errT)), false)
}()

// callsTouching: does the body call a function whose contract changes lock state (touches)?
func (w *World) callsTouching(fi *FuncInfo) bool {
	found := false
	info := fi.Pkg.TypesInfo
	ast.Inspect(fi.Decl.Body, func(n ast.Node) bool {
		call, ok := n.(*ast.CallExpr)
		if !ok || found {
			return !found
		}
		var fn *types.Func
		switch f := stripParens(call.Fun).(type) {
		case *ast.Ident:
			fn, _ = info.Uses[f].(*types.Func)
		case *ast.SelectorExpr:
			if sel := info.Selections[f]; sel != nil {
				fn, _ = sel.Obj().(*types.Func)
			} else {
				fn, _ = info.Uses[f.Sel].(*types.Func)
			}
		}
		if fn != nil {
			if cf := w.ByObj[fn]; cf != nil && hasTouches(w.Specs.ByKey[cf.Key]) {
				found = true
			}
		}
		return !found
	})
	return found
}
