package main

// Syntactic effect inference over the static call graph: heap keys written, locks touched.

import (
	"go/ast"
	"go/token"
	"go/types"
	"strings"
)

type Effects struct {
	Writes  map[string]bool
	Locks   map[string]bool
	Unknown bool
	Why     string
}

func newEffects() *Effects { return &Effects{Writes: map[string]bool{}, Locks: map[string]bool{}} }

func (e *Effects) merge(o *Effects) {
	if o == nil {
		return
	}
	for k := range o.Writes {
		e.Writes[k] = true
	}
	for k := range o.Locks {
		e.Locks[k] = true
	}
	if o.Unknown && !e.Unknown {
		e.Unknown = true
		e.Why = o.Why
	}
}

var purePkgs = map[string]bool{
	"fmt": true, "errors": true, "strings": true, "bytes": true, "math": true, "strconv": true, "unicode/utf8": true,
	"math/bits": true, "time": true, "os": false, "sort": false, "reflect": true, "unicode": true, "math/rand": true,
	"github.com/syndtr/goleveldb/leveldb/errors": true, "path/filepath": true, "hash/crc32": true, "runtime": true,
}

func (w *World) isPure(fn *types.Func) bool {
	if fn.Pkg() == nil {
		return true // error.Error etc.
	}
	if fi := w.ByObj[fn]; fi != nil {
		if ct := w.Specs.ByKey[fi.Key]; ct != nil && ct.Flags["pure"] != "" {
			return true
		}
		eff := w.effectsOf(fn)
		return eff != nil && !eff.Unknown && len(eff.Writes) == 0 && len(eff.Locks) == 0
	}
	p := fn.Pkg().Path()
	if purePkgs[p] {
		return true
	}
	full := fn.FullName()
	switch {
	case full == "sort.Search", full == "sort.SearchInts", strings.HasPrefix(full, "(encoding/binary.littleEndian).Uint"),
		full == "encoding/binary.Uvarint", full == "encoding/binary.Varint", full == "(error).Error",
		strings.HasPrefix(full, "(*sync.WaitGroup)"), strings.HasPrefix(full, "(*sync.Cond)"):
		return true
	}
	return false
}

func (w *World) effectsOf(fn *types.Func) *Effects {
	if w.effMemo == nil {
		w.effMemo = map[*types.Func]*Effects{}
		w.effBusy = map[*types.Func]bool{}
	}
	if e, ok := w.effMemo[fn]; ok {
		return e
	}
	fi := w.ByObj[fn]
	if fi == nil {
		return nil
	}
	if w.effBusy[fn] {
		return newEffects() // recursion: fixpoint approximated by the other members of the cycle
	}
	w.effBusy[fn] = true
	saved := w.skipTerminating
	w.skipTerminating = nil
	eff := w.scanEffects(fi.Pkg.TypesInfo, fi.Decl.Body)
	w.skipTerminating = saved
	delete(w.effBusy, fn)
	w.effMemo[fn] = eff
	return eff
}

// bodyWrites: effects of a loop body on paths that can reach the back edge (blocks that end in
// return/panic and contain no continue are skipped).
func (w *World) bodyWrites(e *Env, body *ast.BlockStmt) *Effects {
	w.skipTerminating = body
	defer func() { w.skipTerminating = nil }()
	return w.scanEffects(e.Info, body)
}

func blockTerminates(x *ast.BlockStmt) bool {
	if len(x.List) == 0 {
		return false
	}
	switch l := x.List[len(x.List)-1].(type) {
	case *ast.ReturnStmt:
	case *ast.ExprStmt:
		call, ok := l.X.(*ast.CallExpr)
		if !ok {
			return false
		}
		if id, ok := call.Fun.(*ast.Ident); !ok || id.Name != "panic" {
			return false
		}
	default:
		return false
	}
	found := false
	ast.Inspect(x, func(n ast.Node) bool {
		switch y := n.(type) {
		case *ast.BranchStmt:
			if y.Tok == token.CONTINUE || y.Tok == token.GOTO {
				found = true
			}
		case *ast.FuncLit:
			return false
		}
		return !found
	})
	return !found
}

func fieldKeyOf(info *types.Info, sx *ast.SelectorExpr) (string, bool, types.Type) {
	sel := info.Selections[sx]
	if sel == nil || sel.Kind() != types.FieldVal {
		return "", false, nil
	}
	curT := sel.Recv()
	heap := false
	if _, isPtr := curT.Underlying().(*types.Pointer); isPtr {
		heap = true
	}
	idx := sel.Index()
	for k, fi := range idx {
		s := structOf(curT)
		if s == nil {
			return "", false, nil
		}
		f := s.Field(fi)
		if k == len(idx)-1 {
			owner := curT
			if p, ok := owner.Underlying().(*types.Pointer); ok {
				owner = p.Elem()
			}
			return "F$" + structKey(owner) + "." + f.Name(), heap, f.Type()
		}
		curT = f.Type()
		if _, isPtr := curT.Underlying().(*types.Pointer); isPtr {
			heap = true
		}
	}
	return "", false, nil
}

// rootIsHeap reports whether an lvalue expression designates heap storage (vs. a value-typed local).
func rootIsHeap(info *types.Info, x ast.Expr) bool {
	x = stripParens(x)
	switch y := x.(type) {
	case *ast.Ident:
		if v, ok := info.Uses[y].(*types.Var); ok && v.Pkg() != nil && v.Parent() == v.Pkg().Scope() {
			return true
		}
		return false
	case *ast.SelectorExpr:
		if sel := info.Selections[y]; sel != nil {
			if _, isPtr := sel.Recv().Underlying().(*types.Pointer); isPtr {
				return true
			}
			// embedded pointer on the path?
			curT := sel.Recv()
			for _, fi := range sel.Index()[:len(sel.Index())-1] {
				s := structOf(curT)
				if s == nil {
					return true
				}
				curT = s.Field(fi).Type()
				if _, isPtr := curT.Underlying().(*types.Pointer); isPtr {
					return true
				}
			}
			return rootIsHeap(info, y.X)
		}
		return true // pkg.Var
	case *ast.IndexExpr:
		t := info.TypeOf(y.X)
		if _, isArr := t.Underlying().(*types.Array); isArr {
			return rootIsHeap(info, y.X)
		}
		return true
	case *ast.StarExpr:
		return true
	}
	return true
}

func (w *World) scanEffects(info *types.Info, body ast.Node) *Effects {
	eff := newEffects()
	if body == nil {
		return eff
	}
	unknown := func(why string) {
		if !eff.Unknown {
			eff.Unknown = true
			eff.Why = why
		}
	}
	lhs := func(x ast.Expr) {
		x = stripParens(x)
		switch y := x.(type) {
		case *ast.Ident:
			if v, ok := info.Uses[y].(*types.Var); ok && v.Pkg() != nil && v.Parent() == v.Pkg().Scope() {
				eff.Writes["V$"+v.Pkg().Name()+"."+v.Name()] = true
			}
		case *ast.SelectorExpr:
			if key, _, _ := fieldKeyOf(info, y); key != "" {
				if rootIsHeap(info, y) {
					eff.Writes[key] = true
				}
			} else if v, ok := info.Uses[y.Sel].(*types.Var); ok && v.Pkg() != nil {
				eff.Writes["V$"+v.Pkg().Name()+"."+v.Name()] = true
			}
		case *ast.IndexExpr:
			t := info.TypeOf(y.X)
			switch u := t.Underlying().(type) {
			case *types.Slice:
				eff.Writes["M$"+typeKey(u.Elem())] = true
			case *types.Array:
				eff.Writes["M$"+typeKey(u.Elem())] = true
			case *types.Pointer:
				if a, ok := u.Elem().Underlying().(*types.Array); ok {
					eff.Writes["M$"+typeKey(a.Elem())] = true
				}
			case *types.Map:
				// maps are opaque
			}
		case *ast.StarExpr:
			t := info.TypeOf(y.X)
			if p, ok := t.Underlying().(*types.Pointer); ok {
				if _, isStruct := p.Elem().Underlying().(*types.Struct); isStruct {
					eff.Writes["F$"+structKey(p.Elem())] = true
				} else {
					eff.Writes["P$"+typeKey(p.Elem())] = true
				}
			}
		}
	}
	skipRoot := w.skipTerminating
	ast.Inspect(body, func(n ast.Node) bool {
		switch x := n.(type) {
		case *ast.BlockStmt:
			if skipRoot != nil && x != skipRoot && blockTerminates(x) {
				return false
			}
		case *ast.AssignStmt:
			if x.Tok != token.DEFINE {
				for _, l := range x.Lhs {
					lhs(l)
				}
			}
		case *ast.IncDecStmt:
			lhs(x.X)
		case *ast.RangeStmt:
			if x.Tok == token.ASSIGN {
				if x.Key != nil {
					lhs(x.Key)
				}
				if x.Value != nil {
					lhs(x.Value)
				}
			}
		case *ast.SendStmt:
			w.chanEffect(info, x.Chan, eff)
		case *ast.UnaryExpr:
			if x.Op == token.ARROW {
				w.chanEffect(info, x.X, eff)
			}
			if x.Op == token.AND {
				// address of a local escapes: writes through it are not tracked per variable; boxed locals use P$ keys
				if id, ok := stripParens(x.X).(*ast.Ident); ok {
					if v, ok := info.Uses[id].(*types.Var); ok {
						if _, isStruct := v.Type().Underlying().(*types.Struct); !isStruct {
							eff.Writes["P$"+typeKey(v.Type())] = true
						}
					}
				}
			}
		case *ast.GoStmt:
			// another thread
			return false
		case *ast.CallExpr:
			w.callEffects(info, x, eff, unknown)
		}
		return true
	})
	return eff
}

func (w *World) chanEffect(info *types.Info, ch ast.Expr, eff *Effects) {
	sx, ok := stripParens(ch).(*ast.SelectorExpr)
	if !ok {
		return
	}
	key, _, _ := fieldKeyOf(info, sx)
	if key == "" {
		return
	}
	name := strings.TrimPrefix(key, "F$")
	if d := w.chanDecl(name); d != nil {
		if d.Kind == "lock" {
			eff.Locks["L$"+name] = true
		} else {
			eff.Locks["E$"+name+"$send"] = true
			eff.Locks["E$"+name+"$recv"] = true
		}
	}
}

func (w *World) callEffects(info *types.Info, call *ast.CallExpr, eff *Effects, unknown func(string)) {
	if tv, ok := info.Types[call.Fun]; ok && tv.IsType() {
		return
	}
	fun := stripParens(call.Fun)
	var fn *types.Func
	var recvIface bool
	var recvExpr ast.Expr
	switch f := fun.(type) {
	case *ast.Ident:
		switch o := info.Uses[f].(type) {
		case *types.Builtin:
			switch o.Name() {
			case "copy", "append":
				t := info.TypeOf(call.Args[0])
				if s, ok := t.Underlying().(*types.Slice); ok {
					eff.Writes["M$"+typeKey(s.Elem())] = true
				}
			}
			return
		case *types.Func:
			fn = o
		case *types.Var:
			// closure variable: its literal (if any) is scanned as part of the body
			if _, isSig := o.Type().Underlying().(*types.Signature); isSig {
				if o.Parent() != nil && o.Pkg() != nil && o.Parent() != o.Pkg().Scope() {
					// local func value: if it is a parameter or field, unknown
					if o.IsField() {
						unknown("call through func field " + o.Name())
					}
					// locals holding literals are covered by scanning the literal; parameters are unknown
					unknown("call through func value " + o.Name())
				}
			}
			return
		default:
			return
		}
	case *ast.SelectorExpr:
		if sel := info.Selections[f]; sel != nil {
			if sel.Kind() == types.MethodVal {
				fn = sel.Obj().(*types.Func)
				_, recvIface = sel.Recv().Underlying().(*types.Interface)
				recvExpr = f.X
			} else {
				unknown("call through func field " + f.Sel.Name)
				return
			}
		} else if o, ok := info.Uses[f.Sel].(*types.Func); ok {
			fn = o
		} else {
			return
		}
	case *ast.FuncLit:
		return // body scanned in place
	default:
		unknown("dynamic call")
		return
	}
	full := fn.FullName()
	switch full {
	case "(*sync.Mutex).Lock", "(*sync.RWMutex).Lock", "(*sync.Mutex).Unlock", "(*sync.RWMutex).Unlock",
		"(*sync.RWMutex).RLock", "(*sync.RWMutex).RUnlock", "(*sync.Mutex).TryLock":
		rx := stripParens(recvExpr)
		if sx, ok := rx.(*ast.SelectorExpr); ok {
			if key, _, _ := fieldKeyOf(info, sx); key != "" {
				p := "L$"
				if strings.HasPrefix(fn.Name(), "R") {
					p = "L$R$"
				}
				eff.Locks[p+strings.TrimPrefix(key, "F$")] = true
				return
			}
		}
		eff.Locks["L$local."+exprString(recvExpr)] = true
		return
	}
	if strings.HasPrefix(full, "sync/atomic.") {
		if len(call.Args) > 0 && !strings.HasPrefix(fn.Name(), "Load") {
			if u, ok := stripParens(call.Args[0]).(*ast.UnaryExpr); ok && u.Op == token.AND {
				if sx, ok := stripParens(u.X).(*ast.SelectorExpr); ok {
					if key, _, _ := fieldKeyOf(info, sx); key != "" {
						eff.Writes[key] = true
						return
					}
				}
			}
			unknown("atomic on unknown target")
		}
		return
	}
	if strings.HasPrefix(full, "(encoding/binary.littleEndian).Put") || strings.HasPrefix(full, "encoding/binary.Put") {
		eff.Writes["M$uint8"] = true
		return
	}
	if recvIface {
		if n := namedOf(fn.Type().(*types.Signature).Recv().Type()); n != nil && n.Obj().Pkg() != nil {
			key := "iface:" + n.Obj().Pkg().Name() + "." + n.Obj().Name() + "." + fn.Name()
			if ct := w.Specs.ByKey[key]; ct != nil {
				if ct.Flags["pure"] != "" {
					return
				}
				if wr := ct.Flags["effects"]; wr != "" {
					for _, k := range strings.Fields(wr) {
						eff.Writes[k] = true
					}
					return
				}
			}
		}
		if w.isPure(fn) {
			return
		}
		unknown("interface call " + full)
		return
	}
	if fi := w.ByObj[fn]; fi != nil {
		if ct := w.Specs.ByKey[fi.Key]; ct != nil && ct.Flags["pure"] != "" {
			return
		}
		eff.merge(w.effectsOf(fn))
		return
	}
	if w.isPure(fn) {
		return
	}
	if ct := w.Specs.ByKey["iface:"+extKey(fn)]; ct != nil {
		if ct.Flags["pure"] != "" {
			return
		}
		if wr := ct.Flags["effects"]; wr != "" {
			for _, k := range strings.Fields(wr) {
				eff.Writes[k] = true
			}
			return
		}
	}
	unknown("external call " + full)
}
