package main

// Abstraction of keys by type (DESIGN.md 3.1): in functions whose contract says "abstract keys", every value of
// type []byte is a user key and every value of type internalKey is an internal key. A user key is represented
// by its rank in the user order (a real number: every countable total order embeds in Q, and the obligations
// are universal over keys), an internal key by (user key, packed sequence/type number). Code that compares
// keys with bytes.Compare uses a second, independent order lof(rank) (an injective function of the rank).
// Indexing or slicing an abstracted key leaves the subset.

import (
	"fmt"
	"go/ast"
	"go/token"
	"go/types"
	"os"
	"strconv"
	"strings"
)

type IKeyV struct {
	U   *KeyV
	Num *Term
}

func isByteSlice(t types.Type) bool {
	s, ok := t.Underlying().(*types.Slice)
	if !ok {
		return false
	}
	b, ok := s.Elem().Underlying().(*types.Basic)
	return ok && b.Kind() == types.Uint8
}

func isInternalKeyType(t types.Type) bool {
	n, ok := t.(*types.Named)
	if !ok {
		if a, ok := t.(*types.Alias); ok {
			return isInternalKeyType(types.Unalias(a))
		}
		return false
	}
	return n.Obj().Name() == "internalKey" && n.Obj().Pkg() != nil && n.Obj().Pkg().Name() == "leveldb"
}

// buildKey builds an abstract key value from leaf generators (used by build).
func (c *FCtx) buildKey(t types.Type, path string, gen leafGen) Value {
	if isInternalKeyType(t) {
		u := &KeyV{Rank: gen(path+".urank", nil, SKey), Nil: gen(path+".unil", nil, SBool), Len: gen(path+".ulen", nil, SInt)}
		return &IKeyV{U: u, Num: gen(path+".num", types.Typ[types.Uint64], c.leafSort(types.Typ[types.Uint64]))}
	}
	return &KeyV{Rank: gen(path+".rank", nil, SKey), Nil: gen(path+".nil", nil, SBool), Len: gen(path+".klen", nil, SInt)}
}

func (c *FCtx) keyFacts(v Value) []*Term {
	var out []*Term
	switch k := v.(type) {
	case *KeyV:
		out = append(out, IGe(k.Len, IntC(0)), Implies(k.Nil, Eq(k.Len, IntC(0))))
	case *IKeyV:
		out = append(out, c.keyFacts(k.U)...)
		out = append(out, c.rangeFact(types.Typ[types.Uint64], k.Num))
		// a non-nil internal key has at least the 8 trailer bytes
		out = append(out, Implies(Not(k.U.Nil), IGe(k.U.Len, IntC(0))))
	}
	return out
}

func cmp3(a, b *Term) *Term {
	return Ite(Op("<", SBool, a, b), IntC(-1), Ite(Op(">", SBool, a, b), IntC(1), IntC(0)))
}

// lof: the bytewise (lexicographic) rank of the key with user rank r; injective.
func (c *FCtx) lof(st *State, r *Term) *Term {
	l := App("lof$", SKey, r)
	if st != nil {
		st.assume(Eq(App("linv$", SKey, l), r))
	}
	return l
}

// ikcmp: the internal-key order (user key ascending, then packed number descending).
func ikcmpTerm(a, b *IKeyV) *Term {
	u := cmp3(a.U.Rank, b.U.Rank)
	return Ite(Neq(u, IntC(0)), u, Ite(IGt(a.Num, b.Num), IntC(-1), Ite(ILt(a.Num, b.Num), IntC(1), IntC(0))))
}

// absCall intercepts the key primitives when keys are abstracted.
func (e *Env) absCall(call *ast.CallExpr, st *State, cl callee, recvVal Value, args []Value) (Value, bool) {
	c := e.C
	if !c.AbsKeys || cl.fn == nil {
		return nil, false
	}
	name := cl.fn.Name()
	full := cl.full
	if ik, ok := recvVal.(*IKeyV); ok {
		switch name {
		case "ukey":
			return ik.U, true
		case "num":
			return ik.Num, true
		case "parseNum":
			return &TupleV{Vs: []Value{IDivE(ik.Num, IntC(256)), IModE(ik.Num, IntC(256))}}, true
		case "assert":
			return IntC(0), true
		case "String":
			return e.opaque(call, st), true
		}
	}
	keyArgs := func(n int) ([]*KeyV, bool) {
		if len(args) < n {
			return nil, false
		}
		var ks []*KeyV
		for _, a := range args[:n] {
			k, ok := a.(*KeyV)
			if !ok {
				return nil, false
			}
			ks = append(ks, k)
		}
		return ks, true
	}
	switch {
	case strings.HasSuffix(full, "leveldb.iComparer).uCompare") || (cl.iface && name == "Compare" && len(args) == 2):
		if ks, ok := keyArgs(2); ok {
			return cmp3(ks[0].Rank, ks[1].Rank), true
		}
	case strings.HasSuffix(full, "leveldb.iComparer).Compare"):
		a, ok1 := args[0].(*IKeyV)
		b, ok2 := args[1].(*IKeyV)
		if ok1 && ok2 {
			return ikcmpTerm(a, b), true
		}
	case full == "bytes.Compare":
		if ks, ok := keyArgs(2); ok {
			return cmp3(c.lof(st, ks[0].Rank), c.lof(st, ks[1].Rank)), true
		}
	case full == "bytes.Equal":
		if ks, ok := keyArgs(2); ok {
			return Eq(ks[0].Rank, ks[1].Rank), true
		}
	case strings.HasSuffix(full, "leveldb.parseInternalKey"):
		// (ukey, seq, kt, err): the parts of the key; err == nil only for a well-formed key
		if len(args) == 1 {
			var ik *IKeyV
			switch k := args[0].(type) {
			case *IKeyV:
				ik = k
			case *KeyV:
				ik = c.asIKey(st, k)
			}
			if ik != nil {
				kerr := c.freshVar("r_kerr", SInt)
				st.assume(IGe(kerr, IntC(0)))
				seq, kt := IDivE(ik.Num, IntC(256)), IModE(ik.Num, IntC(256))
				st.assume(Implies(Eq(kerr, IntC(0)), ILe(kt, IntC(1))))
				return &TupleV{Vs: []Value{&KeyV{Rank: ik.U.Rank, Nil: TFalse, Len: ik.U.Len}, seq, kt, kerr}}, true
			}
		}
	case strings.HasSuffix(full, "leveldb.makeInternalKey"):
		if len(args) == 4 {
			if u, ok := args[1].(*KeyV); ok {
				seq, ok1 := args[2].(*Term)
				kt, ok2 := args[3].(*Term)
				if ok1 && ok2 {
					return &IKeyV{U: &KeyV{Rank: u.Rank, Nil: TFalse, Len: u.Len}, Num: IAdd(IMul(seq, IntC(256)), kt)}, true
				}
			}
		}
	}
	return nil, false
}

// absBuiltin handles len/append/copy on abstract keys.
func (e *Env) absBuiltin(name string, call *ast.CallExpr, st *State) (Value, bool) {
	c := e.C
	if !c.AbsKeys {
		return nil, false
	}
	switch name {
	case "len":
		v := e.eval(call.Args[0], st)
		switch k := v.(type) {
		case *KeyV:
			return k.Len, true
		case *IKeyV:
			return IAdd(k.U.Len, IntC(8)), true
		}
	case "append":
		// append(x[:0], k...) / append([]byte(nil), k...) / append(internalKey{}, k...): a copy of k
		if at := e.Info.TypeOf(call.Args[len(call.Args)-1]); call.Ellipsis.IsValid() && len(call.Args) == 2 && at != nil && (isInternalKeyType(at) || isByteSlice(at)) {
			src := e.eval(call.Args[1], st)
			switch k := src.(type) {
			case *KeyV:
				t := e.Info.TypeOf(call)
				if t != nil && isInternalKeyType(t) {
					return nil, false
				}
				return &KeyV{Rank: k.Rank, Nil: TFalse, Len: k.Len}, true
			case *IKeyV:
				return &IKeyV{U: &KeyV{Rank: k.U.Rank, Nil: TFalse, Len: k.U.Len}, Num: k.Num}, true
			}
		}
	}
	return nil, false
}

// keyEq: equality of abstract keys (used for == nil tests and spec equality).
func keyEq(a, b *KeyV) *Term {
	return And(Eq(a.Nil, b.Nil), Or(a.Nil, Eq(a.Rank, b.Rank)))
}

// sortSearchModel: sort.Search(n, f) returns the least index in [0,n] at which the (monotone) predicate holds.
// The closure is evaluated at a symbolic index; monotonicity of the predicate is an obligation.
func (e *Env) sortSearchModel(call *ast.CallExpr, st *State, args []Value) (Value, bool) {
	c := e.C
	if len(call.Args) != 2 {
		return nil, false
	}
	n, ok := args[0].(*Term)
	if !ok {
		return nil, false
	}
	var lit *ast.FuncLit
	switch f := stripParens(call.Args[1]).(type) {
	case *ast.FuncLit:
		lit = f
	case *ast.Ident:
		if obj := e.Info.Uses[f]; obj != nil {
			if fv, ok := st.vars[obj].(*FuncV); ok {
				lit, _ = fv.Lit.(*ast.FuncLit)
			}
		}
	}
	if lit == nil {
		return nil, false
	}
	// The closure is evaluated once, at a symbolic index j, on a scratch state. Values the evaluation makes up (results
	// of contracted calls, havocked reads) are functions of the index: every variable created during the evaluation is
	// replaced by an uninterpreted function of j, and the facts the evaluation assumed about them (the callees'
	// postconditions) are kept, universally over the searched range.
	j := Var(c.freshName("sj"), c.idxSort())
	mark := c.fresh
	tmp := st.clone()
	nBefore := 0
	if st.pc != nil {
		nBefore = st.pc.n
	}
	fakeCall := &ast.CallExpr{Fun: lit, Args: []ast.Expr{&ast.Ident{Name: "searchidx", NamePos: call.Pos()}}, Lparen: call.Lparen}
	var pj *Term
	if v := e.inlineLit(lit, fakeCall, tmp, []Value{j}); v != nil {
		if t, ok := v.(*Term); ok && t.Sort == SBool {
			pj = t
		} else if os.Getenv("GOCV_SEARCHDBG") != "" {
			fmt.Fprintf(os.Stderr, "sort.Search predicate not a boolean term in %s: %T %v\n", c.FI.Key, v, v)
		}
	}
	var facts []*Term
	if pj != nil {
		all := tmp.pc.list()
		if len(all) >= nBefore && (nBefore == 0 || all[nBefore-1] == st.pc.t) {
			facts = all[nBefore:]
		} else {
			pj = nil // the scratch state did not extend the caller's path condition: give up on the predicate
		}
	}
	if pj != nil {
		sk := map[string]*Term{}
		var collect func(t *Term)
		collect = func(t *Term) {
			if t.Op == "var" && t.Name != j.Name {
				if k := strings.LastIndex(t.Name, "!"); k > 0 {
					if id, err := strconv.Atoi(t.Name[k+1:]); err == nil && id > mark {
						if _, ok := sk[t.Name]; !ok {
							sk[t.Name] = App("sk$"+t.Name, t.Sort, j)
						}
					}
				}
			}
			for _, a := range t.Args {
				collect(a)
			}
		}
		collect(pj)
		for _, f := range facts {
			collect(f)
		}
		if len(sk) > 0 {
			pj = subst(pj, sk)
			for i, f := range facts {
				facts[i] = subst(f, sk)
			}
		}
	}
	if pj != nil && !mentionsVar(pj, j.Name) && os.Getenv("GOCV_SEARCHDBG") != "" {
		fmt.Fprintf(os.Stderr, "sort.Search predicate independent of the index in %s: %s\n", c.FI.Key, pj.String())
	}
	if c.LockSweep {
		pj = nil // the lock sweep needs nothing of the search but its range
	}
	if pj == nil || !mentionsVar(pj, j.Name) {
		// the predicate could not be evaluated as a function of the index (unmodelled code in the closure): nothing
		// is known about the result beyond its range. (Treating it as one unknown truth value for every index
		// would exclude every result strictly inside the range.)
		r := c.freshVar("search", c.idxSort())
		st.assume(And(c.ile(c.idxC(0), r), c.ile(r, n)))
		return r, true
	}
	if len(facts) > 0 {
		fj := Var(c.freshName("sj"), c.idxSort())
		var inst []*Term
		for _, f := range facts {
			inst = append(inst, subst(f, map[string]*Term{j.Name: fj}))
		}
		st.assume(Forall([]*Term{fj}, Implies(And(c.ile(c.idxC(0), fj), c.ilt(fj, n)), And(inst...))))
	}
	at := func(x *Term) *Term { return subst(pj, map[string]*Term{j.Name: x}) }
	r := c.freshVar("search", c.idxSort())
	st.assume(And(c.ile(c.idxC(0), r), c.ile(r, n)))
	jj := Var(c.freshName("sj"), c.idxSort())
	st.assume(Forall([]*Term{jj}, Implies(And(c.ile(c.idxC(0), jj), c.ilt(jj, r)), Not(at(jj)))))
	st.assume(Implies(c.ilt(r, n), at(r)))
	// monotonicity: P(j) and j < k < n imply P(k)
	a := Var(c.freshName("sa"), c.idxSort())
	b := Var(c.freshName("sb"), c.idxSort())
	mono := Forall([]*Term{a, b}, Implies(And(c.ile(c.idxC(0), a), c.ilt(a, b), c.ilt(b, n), at(a)), at(b)))
	ord := c.siteOrdinal("assert", call.Pos())
	if c.Contract != nil && c.Contract.Flags["sortedinput"] != "" {
		// "sortedinput": the data the search runs over is sorted as far as the predicate is concerned - an assumption
		// about the input (a block that passed its checksum, as the writer emitted it), listed in the evidence
		c.noteAssumed(fmt.Sprintf("%s: the predicate of sort.Search #%d is monotone over the searched range (sortedinput: %s)", c.Name, ord, c.Contract.Flags["sortedinput"]))
		st.assume(mono)
	} else {
		c.oblige(st, "assert", "search-monotone#"+itoa(ord), call.Pos(), mono, "the predicate given to sort.Search is monotone over the searched range")
	}
	return r, true
}

func itoa(n int) string {
	if n == 0 {
		return "0"
	}
	s := ""
	for n > 0 {
		s = string(rune('0'+n%10)) + s
		n /= 10
	}
	return s
}

var _ = token.NoPos

// asIKey: a byte string viewed as an internal key; user key and packed number are functions of the byte string.
func (c *FCtx) asIKey(st *State, k *KeyV) *IKeyV {
	num := App("ik.num$", SInt, k.Rank)
	if st != nil {
		st.assume(c.rangeFact(types.Typ[types.Uint64], num))
	}
	return &IKeyV{U: &KeyV{Rank: App("ik.ukey$", SKey, k.Rank), Nil: k.Nil, Len: ISub(k.Len, IntC(8))}, Num: num}
}
