package main

// Which concrete types flow into which interfaces (a light rapid-type analysis), so that a dynamic call
// through an interface is resolved only to methods of types that can actually be behind that interface.

import (
	"go/ast"
	"go/types"
)

type assertion struct{ from, to *types.Interface }

type rtaInfo struct {
	converted map[types.Type][]*types.Interface // concrete type -> interfaces it is converted to
	asserted  []assertion                       // interface-to-interface type assertions / switches
	keys      map[string]types.Type
}

func (w *World) rta() *rtaInfo {
	if w.rtaInfo != nil {
		return w.rtaInfo
	}
	r := &rtaInfo{converted: map[types.Type][]*types.Interface{}, keys: map[string]types.Type{}}
	w.rtaInfo = r
	note := func(from, to types.Type) {
		if from == nil || to == nil {
			return
		}
		it, ok := to.Underlying().(*types.Interface)
		if !ok {
			return
		}
		if _, fromI := from.Underlying().(*types.Interface); fromI {
			return
		}
		if b, ok := from.(*types.Basic); ok && b.Kind() == types.UntypedNil {
			return
		}
		k := types.TypeString(from, nil)
		canon, ok := r.keys[k]
		if !ok {
			r.keys[k] = from
			canon = from
		}
		r.converted[canon] = append(r.converted[canon], it)
	}
	for _, p := range w.Pkgs {
		info := p.TypesInfo
		for _, f := range p.Syntax {
			var sigStack []*types.Signature
			var visit func(n ast.Node) bool
			visit = func(n ast.Node) bool {
				switch x := n.(type) {
				case *ast.FuncDecl:
					if x.Body == nil {
						return false
					}
					if obj, ok := info.Defs[x.Name].(*types.Func); ok {
						sigStack = append(sigStack, obj.Type().(*types.Signature))
						ast.Inspect(x.Body, visit)
						sigStack = sigStack[:len(sigStack)-1]
					}
					return false
				case *ast.FuncLit:
					if sig, ok := info.TypeOf(x).(*types.Signature); ok {
						sigStack = append(sigStack, sig)
						ast.Inspect(x.Body, visit)
						sigStack = sigStack[:len(sigStack)-1]
					}
					return false
				case *ast.AssignStmt:
					if len(x.Lhs) == len(x.Rhs) {
						for i := range x.Lhs {
							note(info.TypeOf(x.Rhs[i]), info.TypeOf(x.Lhs[i]))
						}
					}
				case *ast.ValueSpec:
					if x.Type != nil {
						for _, v := range x.Values {
							note(info.TypeOf(v), info.TypeOf(x.Type))
						}
					}
				case *ast.ReturnStmt:
					if len(sigStack) > 0 {
						sig := sigStack[len(sigStack)-1]
						if len(x.Results) == sig.Results().Len() {
							for i, rx := range x.Results {
								note(info.TypeOf(rx), sig.Results().At(i).Type())
							}
						}
					}
				case *ast.SendStmt:
					if ch, ok := info.TypeOf(x.Chan).Underlying().(*types.Chan); ok {
						note(info.TypeOf(x.Value), ch.Elem())
					}
				case *ast.CallExpr:
					if tv, ok := info.Types[x.Fun]; ok && tv.IsType() {
						if len(x.Args) == 1 {
							note(info.TypeOf(x.Args[0]), tv.Type)
						}
						return true
					}
					if sig, ok := info.TypeOf(x.Fun).Underlying().(*types.Signature); ok {
						for i, a := range x.Args {
							var pt types.Type
							if sig.Variadic() && i >= sig.Params().Len()-1 {
								if sl, ok := sig.Params().At(sig.Params().Len() - 1).Type().(*types.Slice); ok && !x.Ellipsis.IsValid() {
									pt = sl.Elem()
								}
							} else if i < sig.Params().Len() {
								pt = sig.Params().At(i).Type()
							}
							note(info.TypeOf(a), pt)
						}
					}
				case *ast.CompositeLit:
					t := info.TypeOf(x)
					if t == nil {
						return true
					}
					switch u := t.Underlying().(type) {
					case *types.Struct:
						for i, el := range x.Elts {
							if kv, ok := el.(*ast.KeyValueExpr); ok {
								if id, ok := kv.Key.(*ast.Ident); ok {
									for k := 0; k < u.NumFields(); k++ {
										if u.Field(k).Name() == id.Name {
											note(info.TypeOf(kv.Value), u.Field(k).Type())
										}
									}
								}
							} else if i < u.NumFields() {
								note(info.TypeOf(el), u.Field(i).Type())
							}
						}
					case *types.Slice:
						for _, el := range x.Elts {
							note(info.TypeOf(el), u.Elem())
						}
					case *types.Map:
						for _, el := range x.Elts {
							if kv, ok := el.(*ast.KeyValueExpr); ok {
								note(info.TypeOf(kv.Value), u.Elem())
							}
						}
					}
				case *ast.TypeAssertExpr:
					if x.Type != nil {
						if it, ok := info.TypeOf(x.Type).Underlying().(*types.Interface); ok {
							if from, ok := info.TypeOf(x.X).Underlying().(*types.Interface); ok {
								r.asserted = append(r.asserted, assertion{from, it})
							}
						}
					}
				case *ast.TypeSwitchStmt:
					var operand ast.Expr
					switch a := x.Assign.(type) {
					case *ast.AssignStmt:
						operand = a.Rhs[0].(*ast.TypeAssertExpr).X
					case *ast.ExprStmt:
						operand = a.X.(*ast.TypeAssertExpr).X
					}
					from, _ := info.TypeOf(operand).Underlying().(*types.Interface)
					for _, cl := range x.Body.List {
						for _, e := range cl.(*ast.CaseClause).List {
							if t := info.TypeOf(e); t != nil {
								if it, ok := t.Underlying().(*types.Interface); ok && from != nil {
									r.asserted = append(r.asserted, assertion{from, it})
								}
							}
						}
					}
				}
				return true
			}
			ast.Inspect(f, visit)
		}
	}
	return r
}

// mayBeBehind: can a value of concrete type t be the dynamic value of an interface of type it?
// Either t is converted somewhere to an interface at least as wide as it, or it can be behind the source
// interface of a type assertion whose target is at least as wide as it.
func (w *World) mayBeBehind(t types.Type, it *types.Interface) bool {
	return w.mayBeBehindD(t, it, 0)
}

func (w *World) mayBeBehindD(t types.Type, it *types.Interface, depth int) bool {
	r := w.rta()
	if depth > 3 || !types.Implements(t, it) {
		return false
	}
	canon, ok := r.keys[types.TypeString(t, nil)]
	if !ok {
		return false // never converted to any interface
	}
	for _, j := range r.converted[canon] {
		if j.NumMethods() >= it.NumMethods() && types.Implements(j, it) {
			return true
		}
	}
	for _, a := range r.asserted {
		if a.to.NumMethods() >= it.NumMethods() && types.Implements(a.to, it) {
			if a.from.NumMethods() == 0 {
				// asserted from the empty interface: anything converted to an empty interface
				for _, j := range r.converted[canon] {
					if j.NumMethods() == 0 {
						return true
					}
				}
				continue
			}
			if w.mayBeBehindD(t, a.from, depth+1) {
				return true
			}
		}
	}
	return false
}
