package main

// Per-function verification driver, lemmas, axioms.

import (
	"os"
	"go/printer"
	"fmt"
	"runtime"
	"go/ast"
	"go/token"
	"go/types"
	"sort"
	"strings"
)

type FuncResult struct {
	Key      string
	Obls     []*Obligation
	Notes    []string
	OutOfReach string
	Mode     string
	Trusted  bool
	Assumed  []string
}

func (w *World) newFCtx(name string, ct *Contract, defaultSafety bool) *FCtx {
	c := &FCtx{W: w, Contract: ct, Name: name, ord: map[string]int{}, axSeen: map[string]bool{},
		loopOrd: map[token.Pos]int{}, callOrd: map[token.Pos]string{}, retOrd: map[token.Pos]int{}, stmtOrd: map[token.Pos]string{},
		siteOrd: map[token.Pos]int{}, recFuncs: map[string]bool{}, keySorts: map[string]Sort{},
		rangeIdx: map[token.Pos]rangeInfo{}, budgetPaths: 5000, Inputs: map[string]*Term{},
		locksTouched: map[string]string{}, eventsTouched: map[string]string{}}
	c.Safety = defaultSafety
	if ct != nil {
		if ct.Mode == "bv" {
			c.Mode = ModeBV
		}
		if ct.Flags["abstract"] != "" {
			c.AbsKeys = true
		}
		switch ct.Safety {
		case "on":
			c.Safety = true
		case "off":
			c.Safety = false
		}
	}
	return c
}

// numberSites assigns source-order ordinals to loops, calls and returns of the function.
func (c *FCtx) numberSites(fi *FuncInfo) {
	nLoop, nRet := 0, 0
	callCount := map[string]int{}
	stmtCount := map[string]int{}
	info := fi.Pkg.TypesInfo
	ast.Inspect(fi.Decl.Body, func(n ast.Node) bool {
		switch x := n.(type) {
		case *ast.ForStmt:
			nLoop++
			c.loopOrd[x.Pos()] = nLoop
		case *ast.RangeStmt:
			nLoop++
			c.loopOrd[x.Pos()] = nLoop
		case *ast.ReturnStmt:
			nRet++
			c.retOrd[x.Pos()] = nRet
		case *ast.CallExpr:
			name := calleeName(c.W, info, x)
			if name != "" {
				callCount[name]++
				c.callOrd[x.Lparen] = fmt.Sprintf("%s#%d", name, callCount[name])
			}
		}
		// simple statements can be anchors too: "at before stmt <source text>[#k]"
		switch x := n.(type) {
		case *ast.ExprStmt, *ast.AssignStmt, *ast.IncDecStmt, *ast.BranchStmt, *ast.SendStmt, *ast.GoStmt, *ast.DeferStmt, *ast.ReturnStmt:
			var sb strings.Builder
			if err := printer.Fprint(&sb, c.W.Fset, x); err == nil {
				text := c.baselineText(strings.Join(strings.Fields(sb.String()), " "))
				stmtCount[text]++
				c.stmtOrd[x.(ast.Stmt).Pos()] = fmt.Sprintf("stmt %s#%d", text, stmtCount[text])
			}
		}
		// ... and an if statement by its condition: "at before stmt if <cond>[#k]" (before the condition is evaluated)
		if x, ok := n.(*ast.IfStmt); ok && x.Init == nil {
			var sb strings.Builder
			if err := printer.Fprint(&sb, c.W.Fset, x.Cond); err == nil {
				text := c.baselineText("if " + strings.Join(strings.Fields(sb.String()), " "))
				stmtCount[text]++
				c.stmtOrd[x.Pos()] = fmt.Sprintf("stmt %s#%d", text, stmtCount[text])
			}
		}
		return true
	})
	// every anchor of the contract must exist in the function (a vanished anchor would silently drop its clauses)
	if c.Contract != nil {
		have := map[string]bool{"return": true, "entry": true}
		for _, o := range c.callOrd {
			have["call "+o] = true
			have["before call "+o] = true
			if k := strings.LastIndex(o, "#"); k > 0 {
				have["call "+o[:k]+"#*"] = true
				have["before call "+o[:k]+"#*"] = true
			}
		}
		for _, o := range c.stmtOrd {
			have["before "+o] = true
			have["after "+o] = true
		}
		for i, at := range c.Contract.Ats {
			w := at.Where
			if (strings.HasPrefix(w, "before stmt ") || strings.HasPrefix(w, "after stmt ")) && !strings.Contains(w[strings.LastIndex(w, " ")+1:], "#") && !have[w] {
				w += "#1"
				c.Contract.Ats[i].Where = w
			}
			if !have[w] {
				c.badAnchors = append(c.badAnchors, at.Where)
				if os.Getenv("GOCV_ANCHORS") != "" {
					var all []string
					for k := range have {
						all = append(all, k)
					}
					sort.Strings(all)
					fmt.Fprintf(os.Stderr, "anchors of %s:\n  %s\n", fi.Key, strings.Join(all, "\n  "))
				}
			}
		}
	}
}

func calleeName(w *World, info *types.Info, call *ast.CallExpr) string {
	fun := stripParens(call.Fun)
	switch f := fun.(type) {
	case *ast.Ident:
		if fn, ok := info.Uses[f].(*types.Func); ok {
			if fi := w.ByObj[fn]; fi != nil {
				return fi.Short
			}
			return fn.Name()
		}
		if _, ok := info.Uses[f].(*types.Var); ok {
			return f.Name
		}
	case *ast.SelectorExpr:
		if sel := info.Selections[f]; sel != nil {
			if fn, ok := sel.Obj().(*types.Func); ok {
				if fi := w.ByObj[fn]; fi != nil {
					return fi.Short
				}
				if _, isI := sel.Recv().Underlying().(*types.Interface); isI {
					return extKey(fn)
				}
				return extKey(fn)
			}
			return f.Sel.Name
		}
		if fn, ok := info.Uses[f.Sel].(*types.Func); ok {
			if fi := w.ByObj[fn]; fi != nil {
				return fi.Short
			}
			return extKey(fn)
		}
	}
	return ""
}

// verifyFunc generates all obligations of one contracted function.
func (w *World) verifyFunc(fi *FuncInfo, ct *Contract, defaultSafety bool, prop string) (res *FuncResult) {
	return w.verifyFuncMode(fi, ct, defaultSafety, prop, false)
}

func (w *World) verifyFuncMode(fi *FuncInfo, ct *Contract, defaultSafety bool, prop string, sweep bool) (res *FuncResult) {
	c := w.newFCtx(fi.Key, ct, defaultSafety)
	if sweep {
		c.LockSweep = true
		c.LockChecks = true
		c.Safety = false
		c.Name = fi.Key
	} else if ct != nil && contractMentionsLocks(ct) {
		// a contract that speaks about locks gets the automatic lock invariants and balance obligations too
		c.AutoLocks = true
		c.LockChecks = true
	}
	c.FI = fi
	c.PropFilter = prop
	res = &FuncResult{Key: fi.Key, Mode: "int"}
	if c.Mode == ModeBV {
		res.Mode = "bv"
	}
	if ct != nil && ct.Flags["trusted"] != "" {
		res.Trusted = true
		return res
	}
	defer func() {
		if r := recover(); r != nil {
			switch x := r.(type) {
			case outOfReach:
				res.OutOfReach = string(x)
			case specFail:
				res.OutOfReach = "spec error: " + string(x)
			default:
				res.OutOfReach = fmt.Sprintf("engine error: %v @ %s", r, shortStack())
			}
			res.Obls = c.Obls
			res.Notes = c.Notes
			c.attachDefs()
		}
	}()
	c.computeRenames(fi)
	c.numberSites(fi)
	// a vanished anchor is reported (its clauses cannot be checked), the rest of the contract is still verified
	badMsg := ""
	if len(c.badAnchors) > 0 {
		badMsg = fmt.Sprintf("contract anchor not found in the function: at %s", strings.Join(c.badAnchors, "; at "))
		defer func() {
			if res != nil && res.OutOfReach == "" {
				res.OutOfReach = badMsg
			}
		}()
	}
	// "nocall f": the function's own statements (nested function literals are units of their own) never call f
	if ct != nil {
		for _, ex := range ct.Extra {
			if ex.Kind != "nocall" {
				continue
			}
			want := strings.TrimSpace(ex.Text)
			found := token.NoPos
			var walk func(n ast.Node) bool
			walk = func(n ast.Node) bool {
				switch x := n.(type) {
				case *ast.FuncLit:
					if x.Body != fi.Decl.Body {
						return false
					}
				case *ast.CallExpr:
					if calleeName(c.W, fi.Pkg.TypesInfo, x) == want && !found.IsValid() {
						found = x.Pos()
					}
				}
				return true
			}
			ast.Inspect(fi.Decl.Body, walk)
			label := ex.Label
			if label == "" {
				label = want
			}
			g := TTrue
			if found.IsValid() {
				g = TFalse
			}
			st0 := &State{vars: map[types.Object]Value{}, heap: map[string]*Term{}}
			c.oblige(st0, "nocall", fmt.Sprintf("nocall(%s)", label), found, g, "no direct call of "+want)
		}
	}
	sig := fi.Obj.Type().(*types.Signature)
	e := c.newEnv(fi.Pkg, sig, fi.Decl.Body, true, fi.Key)
	e.FI = fi
	st := &State{vars: map[types.Object]Value{}, heap: map[string]*Term{}}
	c.topBindings = &Bindings{vals: map[string]TV{}}
	// receiver and params
	bindParam := func(id *ast.Ident) {
		obj := fi.Pkg.TypesInfo.Defs[id]
		if obj == nil || id.Name == "_" {
			return
		}
		v, facts := c.freshValue(obj.Type(), "p_"+id.Name)
		for _, f := range facts {
			st.assume(f)
		}
		c.recordInputs(id.Name, obj.Type(), v)
		if e.isBoxed(obj) {
			e.setVar(st, obj, v)
		} else {
			st.vars[obj] = v
		}
		c.paramObjs = append(c.paramObjs, obj)
	}
	if fi.Decl.Recv != nil {
		for _, f := range fi.Decl.Recv.List {
			for _, n := range f.Names {
				bindParam(n)
			}
		}
	}
	for _, f := range fi.Decl.Type.Params.List {
		for _, n := range f.Names {
			bindParam(n)
		}
	}
	// pointer receivers / params are allocated objects
	for _, obj := range c.paramObjs {
		if _, isPtr := obj.Type().Underlying().(*types.Pointer); isPtr {
			if r, ok := st.vars[obj].(*Term); ok {
				st.assume(ILt(r, c.heapGet(st, "$alloc", SInt)))
				st.assume(IGe(r, IntC(0)))
			}
		}
		var sls []*SliceV
		c.collectSlices(st.vars[obj], &sls)
		for _, s := range sls {
			st.assume(ILt(s.Base, c.heapGet(st, "$alloc", SInt)))
		}
	}
	// a method is never entered with a nil receiver unless the contract says so
	if fi.Decl.Recv != nil && len(fi.Decl.Recv.List) > 0 && len(fi.Decl.Recv.List[0].Names) > 0 && (ct == nil || ct.Flags["nilrecv"] == "") {
		obj := fi.Pkg.TypesInfo.Defs[fi.Decl.Recv.List[0].Names[0]]
		if obj != nil {
			if _, isPtr := obj.Type().Underlying().(*types.Pointer); isPtr {
				if r, ok := st.vars[obj].(*Term); ok && (ct == nil || ct.Flags["nilrecv"] == "") {
					if !(ct != nil && ct.Flags["returns"] == "nilrecv") {
						st.assume(Neq(r, IntC(0)))
					}
				}
			}
		}
	}
	for _, rv := range e.Results {
		st.vars[rv] = c.zeroValue(rv.Type())
	}
	// a function literal verified as a unit: the enclosing function's locals it captures are arbitrary
	for _, cv := range capturedVars(fi) {
		v, facts := c.freshValue(cv.Type(), "cap_"+cv.Name())
		for _, f := range facts {
			st.assume(f)
		}
		c.recordInputs(cv.Name(), cv.Type(), v)
		if e.isBoxed(cv) {
			e.setVar(st, cv, v)
		} else {
			st.vars[cv] = v
		}
	}
	c.protoEntry(e, st)
	c.entry = st.clone()
	// requires
	if ct != nil {
		for _, r := range ct.Requires {
			st.assume(c.evalSpecTerm(e, r.Expr, st, c.entry, nil))
		}
		c.entry = st.clone()
		cov := &Obligation{Name: c.Name + ":cover(requires)", Kind: "cover", Goal: TTrue, Hyps: st.pc.list(), Cover: true, Func: c.Name}
		c.Obls = append(c.Obls, cov)
	}
	st.defers = [][]deferred{nil}
	if ct != nil && len(ct.Ats) > 0 {
		// "at entry": ghost initialisation before the first statement (old(...) still means this state)
		saved := c.specAt
		c.specAt = fi.Decl.Body.Lbrace
		c.runAts(e, st, "entry", nil)
		c.specAt = saved
		c.entry = st.clone()
	}
	outs := e.execBlock(fi.Decl.Body.List, st)
	nret := 0
	for _, o := range outs {
		switch o.Kind {
		case oNormal, oReturn:
			e.runDefers(o.St)
			if o.St.dead {
				continue
			}
			nret++
			ord := c.retOrd[o.Pos]
			tag := fmt.Sprintf("ret %d", ord)
			if o.Kind == oNormal {
				tag = "end"
			}
			c.checkPost(e, o.St, tag, o.Pos)
		default:
			c.note("stray break/continue at function level")
		}
	}
	res.Obls = c.Obls
	res.Notes = c.Notes
	res.Assumed = c.Assumed
	c.attachDefs()
	return res
}

func (c *FCtx) recordInputs(name string, t types.Type, v Value) {
	c.walkInputs(name, t, v)
}

func (c *FCtx) walkInputs(name string, t types.Type, v Value) {
	switch x := v.(type) {
	case *Term:
		c.Inputs[name] = x
	case *SliceV:
		c.Inputs[name+".base"] = x.Base
		c.Inputs[name+".off"] = x.Off
		c.Inputs[name+".len"] = x.Len
		c.Inputs[name+".cap"] = x.Cap
	case *StructV:
		for k, f := range x.F {
			c.walkInputs(name+"."+k, nil, f)
		}
	}
}

func (c *FCtx) checkPost(e *Env, st *State, tag string, pos token.Pos) {
	saved := c.specAt
	c.specAt = pos
	defer func() { c.specAt = saved }()
	ct := c.Contract
	if ct != nil {
		extra := map[string]TV{}
		for i, rv := range e.Results {
			extra[fmt.Sprintf("ret%d", i)] = TV{st.vars[rv], rv.Type()}
			if i == 0 {
				extra["result"] = TV{st.vars[rv], rv.Type()}
			}
			if !strings.HasPrefix(rv.Name(), "ret") || e.Sig.Results().At(i).Name() != "" {
				extra[rv.Name()] = TV{st.vars[rv], rv.Type()}
			}
		}
		c.runAts(e, st, "return", extra)
		if len(ct.Uses) > 0 {
			se := c.specEnvFor(e, st, c.entry, extra)
			for _, u := range ct.Uses {
				c.applyUse(se, u, st)
			}
		}
		for i, en := range ct.Ensures {
			if en.Assumed {
				c.noteAssumed(fmt.Sprintf("%s: assumed postcondition: %s", c.Name, en.Text))
				continue
			}
			label := en.Label
			if label == "" {
				label = fmt.Sprintf("%d", i+1)
			}
			pse := c.specEnvFor(e, st, c.entry, extra)
			pse.GoalOnly = en.Local
			g := pse.evalBool(en.Expr)
			c.oblige(st, "post", fmt.Sprintf("post(%s)#%s", label, tag), pos, g, en.Text)
		}
	}
	c.checkFrame(e, st, tag, pos)
	c.protoExit(e, st, tag, pos)
}

// attachDefs gives each obligation the definitions it needs.
func (c *FCtx) attachDefs() {
	ax := c.userAxioms()
	for _, o := range c.Obls {
		o.Defs = c.Defs
		o.Extra = nil
		o.Axioms = ax
		o.Inputs = c.Inputs
		o.BytesAxioms = c.wantsAxiom("bytes")
		o.RowFrames = c.RowFrames
	}
}

// userAxioms evaluates the declared axioms that mention a spec function this context used.
func (c *FCtx) userAxioms() []*Term {
	var out []*Term
	for _, a := range c.W.Specs.Axioms {
		if strings.HasPrefix(a.Name, "global.") {
			continue
		}
		use := false
		for _, want := range c.wantAxioms() {
			if strings.HasPrefix(a.Name, want+".") || a.Name == want {
				use = true
			}
		}
		if !use {
			continue
		}
		st := &State{vars: map[types.Object]Value{}, heap: map[string]*Term{}}
		se := &SpecEnv{C: c, Pkg: c.W.ByName[a.PkgName], B: &Bindings{vals: map[string]TV{}}, Cur: st, Old: st}
		out = append(out, se.evalBool(a.Expr))
	}
	return out
}

func contractMentionsLocks(ct *Contract) bool {
	for _, r := range ct.Requires {
		if strings.Contains(r.Text, "held(") {
			return true
		}
	}
	for _, r := range ct.Ensures {
		if strings.Contains(r.Text, "held(") {
			return true
		}
	}
	return hasTouches(ct)
}

func shortStack() string {
	buf := make([]byte, 1<<14)
	n := runtime.Stack(buf, false)
	var out []string
	for _, l := range strings.Split(string(buf[:n]), "\n") {
		l = strings.TrimSpace(l)
		if strings.HasPrefix(l, "/verif/cmd/gocv/") {
			if k := strings.Index(l, " "); k > 0 {
				l = l[:k]
			}
			out = append(out, strings.TrimPrefix(l, "/verif/cmd/gocv/"))
		}
		if len(out) >= 6 {
			break
		}
	}
	return strings.Join(out, " < ")
}

// ---- lemmas ----

func (w *World) verifyLemma(ct *Contract) *FuncResult {
	c := w.newFCtx("lemma."+ct.Key, ct, false)
	res := &FuncResult{Key: "lemma:" + ct.Key, Mode: "int"}
	if c.Mode == ModeBV {
		res.Mode = "bv"
	}
	defer func() {
		if r := recover(); r != nil {
			switch x := r.(type) {
			case outOfReach:
				res.OutOfReach = string(x)
			case specFail:
				res.OutOfReach = "spec error: " + string(x)
			default:
				panic(r)
			}
		}
	}()
	st := &State{vars: map[types.Object]Value{}, heap: map[string]*Term{}}
	b := &Bindings{vals: map[string]TV{}}
	pkg := w.ByName[ct.PkgName]
	for _, p := range ct.Params {
		tv := c.specParam(p, st, pkg)
		b.vals[p.Name] = tv
	}
	se := &SpecEnv{C: c, Pkg: pkg, B: b, Cur: st, Old: st}
	for _, r := range ct.Requires {
		st.assume(se.evalBool(r.Expr))
	}
	for _, u := range ct.Uses {
		c.applyUse(se, u, st)
	}
	c.Obls = append(c.Obls, &Obligation{Name: c.Name + ":cover(requires)", Kind: "cover", Goal: TTrue, Hyps: st.pc.list(), Cover: true, Func: c.Name})
	for i, en := range ct.Ensures {
		label := en.Label
		if label == "" {
			label = fmt.Sprintf("%d", i+1)
		}
		g := se.evalBool(en.Expr)
		c.oblige(st, "lemma", fmt.Sprintf("lemma(%s)", label), token.NoPos, g, en.Text)
	}
	res.Obls = c.Obls
	res.Notes = c.Notes
	c.attachDefs()
	return res
}

// specParam creates a symbolic value for a lemma parameter of a spec or Go type.
func (c *FCtx) specParam(p Param, st *State, pkg interface{}) TV {
	switch p.Type {
	case "[]byte":
		t := types.NewSlice(types.Typ[types.Uint8])
		v, facts := c.freshValue(t, "p_"+p.Name)
		for _, f := range facts {
			st.assume(f)
		}
		c.walkInputs(p.Name, t, v)
		return TV{v, t}
	case "string":
		v, facts := c.freshValue(types.Typ[types.String], "p_"+p.Name)
		for _, f := range facts {
			st.assume(f)
		}
		return TV{v, types.Typ[types.String]}
	}
	srt, gty := c.specSort(p.Type)
	v := c.freshVar("p_"+p.Name, srt)
	if gty != nil {
		st.assume(c.rangeFact(gty, v))
	}
	c.Inputs[p.Name] = v
	return TV{v, gty}
}

// runAts executes keyed ghost statements / assertions ("at call f#k", "at return", "at entry").
func (c *FCtx) runAts(e *Env, st *State, where string, extra map[string]TV) {
	if c.Contract == nil {
		return
	}
	// "call f#*" / "before call f#*": every call of f
	wild := ""
	if k := strings.LastIndex(where, "#"); k > 0 && (strings.HasPrefix(where, "call ") || strings.HasPrefix(where, "before call ")) {
		wild = where[:k] + "#*"
	}
	for _, at := range c.Contract.Ats {
		if at.Where != where && (wild == "" || at.Where != wild) {
			continue
		}
		for _, cl := range at.Clauses {
			se := c.specEnvFor(e, st, c.entry, extra)
			switch cl.Kind {
			case "ghost":
				c.ghostAssign(se, cl.Text, st)
			case "assert":
				g := se.evalBool(cl.Expr)
				c.oblige(st, "assert", fmt.Sprintf("assert(%s @ %s)", cl.Label, where), token.NoPos, g, cl.Text)
				st.assume(g)
			case "assume":
				c.noteAssumed(fmt.Sprintf("%s: assume at %s: %s", c.Name, where, cl.Text))
				base := st.pc.list()
				st.assume(se.evalBool(cl.Expr))
				// vacuity guard: the assumption must not contradict what is known on this path
				if !st.dead {
					c.Obls = append(c.Obls, &Obligation{Name: fmt.Sprintf("%s:cover(assume %s @ %s)", c.Name, cl.Label, where), Kind: "cover",
						Goal: TTrue, Hyps: st.pc.list(), CoverBase: base, Cover: true, Func: c.Name, Text: cl.Text})
				}
			case "use":
				c.applyUse(se, cl, st)
			}
		}
	}
}

// ghostAssign: "x.g = expr" for a ghost field or "g = expr" for a ghost global.
func (c *FCtx) ghostAssign(se *SpecEnv, text string, st *State) {
	k := strings.Index(text, "=")
	if k < 0 {
		panic(specFail("bad ghost assignment: " + text))
	}
	lhs, err := parseSpec(strings.TrimSpace(text[:k]))
	if err != nil {
		panic(specFail(err.Error()))
	}
	rhs, err := parseSpec(strings.TrimSpace(text[k+1:]))
	if err != nil {
		panic(specFail(err.Error()))
	}
	v := se.evalTerm(rhs)
	switch lhs.Kind {
	case "sel":
		obj := se.eval(lhs.Args[0])
		owner := obj.T
		if p, ok := owner.Underlying().(*types.Pointer); ok {
			owner = p.Elem()
		}
		skey := structKey(owner)
		for _, g := range c.W.Specs.Ghosts {
			if g.PkgName+"."+g.Recv == skey && g.Name == lhs.Name {
				srt, _ := c.specSort(g.Type)
				key := "G$" + skey + "." + lhs.Name
				arr := c.heapGet(st, key, SArr(SInt, srt))
				c.heapSet(st, key, Store(arr, obj.V.(*Term), coerce(v, srt)))
				return
			}
		}
		panic(specFail("ghost assignment to non-ghost field " + lhs.Name))
	case "id":
		if gt, ok := c.W.Specs.GhostVars[lhs.Name]; ok {
			srt, _ := c.specSort(gt)
			arr := c.heapGet(st, "G$"+lhs.Name, SArr(SInt, srt))
			c.heapSet(st, "G$"+lhs.Name, Store(arr, IntC(0), coerce(v, srt)))
			return
		}
	}
	panic(specFail("bad ghost assignment target: " + text))
}

// applyUse handles `use` hints: ext(a, b) instantiates byte-sequence extensionality.
func (c *FCtx) applyUse(se *SpecEnv, u *Clause, st *State) {
	if strings.HasPrefix(strings.TrimSpace(u.Text), "axioms(") {
		return
	}
	ex, err := parseSpec(u.Text)
	if err != nil {
		panic(specFail(err.Error()))
	}
	if ex.Kind == "call" && ex.Args[0].Kind == "id" {
		switch ex.Args[0].Name {
		case "ext":
			a, _ := se.asSlice(se.eval(ex.Args[1]))
			b, _ := se.asSlice(se.eval(ex.Args[2]))
			if a == nil || b == nil {
				panic(specFail("ext needs two slices"))
			}
			// extensionality of byte sequences, used as a two-step lemma: elementwise equality is proved as an
			// obligation of its own (so that the quantified facts are instantiated at its skolem constant), then
			// the equality of the abstract byte values is available
			name := u.Label
			if name == "" {
				name = fmt.Sprintf("line %d", u.Line)
			}
			c.oblige(st, "assert", fmt.Sprintf("use(ext %s)", name), token.NoPos, se.contentEq(a, b), u.Text)
			st.assume(Implies(se.contentEq(a, b), Eq(c.bytesOf(se.Cur, a), c.bytesOf(se.Cur, b))))
			st.assume(Eq(c.bytesOf(se.Cur, a), c.bytesOf(se.Cur, b)))
			return
		case "assume":
			// explicit, listed assumption
			c.Assumed = append(c.Assumed, u.Text)
			st.assume(se.evalBool(ex.Args[1]))
			return
		}
	}
	// otherwise: a fact to be proved first and then used (a local lemma)
	g := se.evalBool(ex)
	name := u.Label
	if name == "" {
		name = fmt.Sprintf("line %d", u.Line)
	}
	c.oblige(st, "assert", fmt.Sprintf("use(%s)", name), token.NoPos, g, u.Text)
	st.assume(g)
}

// wantAxioms: axiom families requested by the contract with "use axioms(name, ...)".
func (c *FCtx) wantAxioms() []string {
	var out []string
	if c.Contract == nil {
		return nil
	}
	for _, u := range c.Contract.Uses {
		t := strings.TrimSpace(u.Text)
		if strings.HasPrefix(t, "axioms(") && strings.HasSuffix(t, ")") {
			for _, n := range strings.Split(t[len("axioms("):len(t)-1], ",") {
				out = append(out, strings.TrimSpace(n))
			}
		}
	}
	return out
}

func (c *FCtx) wantsAxiom(name string) bool {
	for _, n := range c.wantAxioms() {
		if n == name {
			return true
		}
	}
	return false
}

// ---- axioms for built-in abstractions ----

func (c *FCtx) needAxioms(name string) {
	c.axSeen[name] = true
}

func sortedKeys(m map[string]bool) []string {
	var out []string
	for k := range m {
		out = append(out, k)
	}
	sort.Strings(out)
	return out
}
