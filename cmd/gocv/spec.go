package main

// Specification expression language: lexer, parser, AST.
//
//   e ::= e ==> e | e <==> e | e || e | e && e | e cmp e | e + e | ... | !e | -e
//       | forall x, y T :: e | exists x T :: e | c ? a : b
//       | old(e) | f(e,...) | e.f | e[i] | e[lo:hi] | ident | literal | (e)

import (
	"fmt"
	"strings"
	"unicode"
)

type SExpr struct {
	Kind string // "bin" "un" "quant" "cond" "call" "sel" "index" "slice" "id" "int" "bool" "nil" "old" "str"
	Op   string
	Name string
	Args []*SExpr
	// quant
	Vars   []string
	VTypes []string
	VType  string
	Pos   string
	Lit   string
}

func (e *SExpr) String() string {
	switch e.Kind {
	case "bin":
		return "(" + e.Args[0].String() + " " + e.Op + " " + e.Args[1].String() + ")"
	case "un":
		return e.Op + e.Args[0].String()
	case "quant":
		return "(" + e.Op + " " + strings.Join(e.Vars, ", ") + " " + e.VType + " :: " + e.Args[0].String() + ")"
	case "cond":
		return "(" + e.Args[0].String() + " ? " + e.Args[1].String() + " : " + e.Args[2].String() + ")"
	case "call":
		var as []string
		for _, a := range e.Args[1:] {
			as = append(as, a.String())
		}
		return e.Args[0].String() + "(" + strings.Join(as, ", ") + ")"
	case "sel":
		return e.Args[0].String() + "." + e.Name
	case "index":
		return e.Args[0].String() + "[" + e.Args[1].String() + "]"
	case "slice":
		lo, hi := "", ""
		if e.Args[1] != nil {
			lo = e.Args[1].String()
		}
		if e.Args[2] != nil {
			hi = e.Args[2].String()
		}
		return e.Args[0].String() + "[" + lo + ":" + hi + "]"
	case "old":
		return "old(" + e.Args[0].String() + ")"
	case "id":
		return e.Name
	default:
		return e.Lit
	}
}

type tok struct {
	kind string // "id" "int" "op" "str" "eof"
	text string
}

func lexSpec(s string) ([]tok, error) {
	var out []tok
	i := 0
	for i < len(s) {
		c := rune(s[i])
		switch {
		case unicode.IsSpace(c):
			i++
		case unicode.IsLetter(c) || c == '_':
			j := i
			for j < len(s) && (unicode.IsLetter(rune(s[j])) || unicode.IsDigit(rune(s[j])) || s[j] == '_') {
				j++
			}
			out = append(out, tok{"id", s[i:j]})
			i = j
		case unicode.IsDigit(c):
			j := i
			for j < len(s) && (unicode.IsDigit(rune(s[j])) || unicode.IsLetter(rune(s[j])) || s[j] == '_') {
				j++
			}
			out = append(out, tok{"int", strings.ReplaceAll(s[i:j], "_", "")})
			i = j
		case c == '"':
			j := i + 1
			for j < len(s) && s[j] != '"' {
				j++
			}
			if j >= len(s) {
				return nil, fmt.Errorf("unterminated string")
			}
			out = append(out, tok{"str", s[i+1 : j]})
			i = j + 1
		default:
			ops := []string{"<==>", "==>", "::", "==", "!=", "<=", ">=", "&&", "||", "<<", ">>", "&^",
				"+", "-", "*", "/", "%", "<", ">", "!", "(", ")", "[", "]", ",", ".", ":", "?", "&", "|", "^", "{", "}"}
			matched := false
			for _, op := range ops {
				if strings.HasPrefix(s[i:], op) {
					out = append(out, tok{"op", op})
					i += len(op)
					matched = true
					break
				}
			}
			if !matched {
				return nil, fmt.Errorf("bad character %q in spec %q", c, s)
			}
		}
	}
	out = append(out, tok{"eof", ""})
	return out, nil
}

type specParser struct {
	toks []tok
	p    int
	src  string
}

func parseSpec(s string) (e *SExpr, err error) {
	toks, err := lexSpec(s)
	if err != nil {
		return nil, err
	}
	p := &specParser{toks: toks, src: s}
	defer func() {
		if r := recover(); r != nil {
			if pe, ok := r.(specErr); ok {
				e, err = nil, fmt.Errorf("%s in %q", string(pe), s)
				return
			}
			panic(r)
		}
	}()
	e = p.expr()
	if p.peek().kind != "eof" {
		p.fail("unexpected %q", p.peek().text)
	}
	return e, nil
}

type specErr string

func (p *specParser) fail(f string, a ...interface{}) { panic(specErr(fmt.Sprintf(f, a...))) }
func (p *specParser) peek() tok                        { return p.toks[p.p] }
func (p *specParser) next() tok                        { t := p.toks[p.p]; p.p++; return t }
func (p *specParser) isOp(s string) bool               { t := p.peek(); return t.kind == "op" && t.text == s }
func (p *specParser) accept(s string) bool {
	if p.isOp(s) {
		p.p++
		return true
	}
	return false
}
func (p *specParser) expect(s string) {
	if !p.accept(s) {
		p.fail("expected %q, found %q", s, p.peek().text)
	}
}

func (p *specParser) expr() *SExpr {
	t := p.peek()
	if t.kind == "id" && (t.text == "forall" || t.text == "exists") {
		p.next()
		q := &SExpr{Kind: "quant", Op: t.text}
		for {
			// a group: names, then a type
			var names []string
			for {
				id := p.next()
				if id.kind != "id" {
					p.fail("quantifier variable expected")
				}
				names = append(names, id.text)
				if p.peek().kind == "id" {
					break
				}
				if !p.accept(",") {
					p.fail("quantifier type expected")
				}
			}
			ty := p.next()
			if ty.kind != "id" {
				p.fail("quantifier type expected")
			}
			for _, n := range names {
				q.Vars = append(q.Vars, n)
				q.VTypes = append(q.VTypes, ty.text)
			}
			q.VType = ty.text
			if !p.accept(",") {
				break
			}
		}
		p.expect("::")
		q.Args = []*SExpr{p.expr()}
		return q
	}
	return p.iff()
}

func (p *specParser) iff() *SExpr {
	l := p.implies()
	for p.isOp("<==>") {
		p.next()
		r := p.implies()
		l = &SExpr{Kind: "bin", Op: "<==>", Args: []*SExpr{l, r}}
	}
	return l
}

func (p *specParser) implies() *SExpr {
	l := p.cond()
	if p.isOp("==>") {
		p.next()
		var r *SExpr
		if t := p.peek(); t.kind == "id" && (t.text == "forall" || t.text == "exists") {
			r = p.expr()
		} else {
			r = p.implies()
		}
		return &SExpr{Kind: "bin", Op: "==>", Args: []*SExpr{l, r}}
	}
	return l
}

func (p *specParser) cond() *SExpr {
	c := p.binary(1)
	if p.accept("?") {
		a := p.cond()
		p.expect(":")
		b := p.cond()
		return &SExpr{Kind: "cond", Args: []*SExpr{c, a, b}}
	}
	return c
}

var specPrec = map[string]int{
	"||": 1, "&&": 2,
	"==": 3, "!=": 3, "<": 3, "<=": 3, ">": 3, ">=": 3,
	"+": 4, "-": 4, "|": 4, "^": 4,
	"*": 5, "/": 5, "%": 5, "<<": 5, ">>": 5, "&": 5, "&^": 5,
}

func (p *specParser) binary(min int) *SExpr {
	l := p.unary()
	for {
		t := p.peek()
		if t.kind != "op" {
			return l
		}
		pr, ok := specPrec[t.text]
		if !ok || pr < min {
			return l
		}
		p.next()
		var r *SExpr
		if q := p.peek(); q.kind == "id" && (q.text == "forall" || q.text == "exists") {
			r = p.expr()
		} else {
			r = p.binary(pr + 1)
		}
		l = &SExpr{Kind: "bin", Op: t.text, Args: []*SExpr{l, r}}
	}
}

func (p *specParser) unary() *SExpr {
	if p.accept("!") {
		return &SExpr{Kind: "un", Op: "!", Args: []*SExpr{p.unary()}}
	}
	if p.accept("-") {
		return &SExpr{Kind: "un", Op: "-", Args: []*SExpr{p.unary()}}
	}
	if p.accept("^") {
		return &SExpr{Kind: "un", Op: "^", Args: []*SExpr{p.unary()}}
	}
	if p.accept("*") { // pointer deref in specs is the identity on refs
		return p.unary()
	}
	return p.postfix()
}

func (p *specParser) postfix() *SExpr {
	e := p.primary()
	for {
		switch {
		case p.accept("."):
			id := p.next()
			if id.kind != "id" {
				p.fail("field name expected")
			}
			e = &SExpr{Kind: "sel", Name: id.text, Args: []*SExpr{e}}
		case p.accept("("):
			args := []*SExpr{e}
			if !p.isOp(")") {
				for {
					args = append(args, p.expr())
					if !p.accept(",") {
						break
					}
				}
			}
			p.expect(")")
			if e.Kind == "id" && e.Name == "old" {
				if len(args) != 2 {
					p.fail("old takes one argument")
				}
				e = &SExpr{Kind: "old", Args: []*SExpr{args[1]}}
			} else {
				e = &SExpr{Kind: "call", Args: args}
			}
		case p.accept("["):
			var lo, hi *SExpr
			if p.isOp(":") {
				p.next()
				if !p.isOp("]") {
					hi = p.expr()
				}
				p.expect("]")
				e = &SExpr{Kind: "slice", Args: []*SExpr{e, nil, hi}}
				continue
			}
			lo = p.expr()
			if p.accept(":") {
				if !p.isOp("]") {
					hi = p.expr()
				}
				p.expect("]")
				e = &SExpr{Kind: "slice", Args: []*SExpr{e, lo, hi}}
				continue
			}
			p.expect("]")
			e = &SExpr{Kind: "index", Args: []*SExpr{e, lo}}
		default:
			return e
		}
	}
}

func (p *specParser) primary() *SExpr {
	t := p.next()
	switch t.kind {
	case "int":
		return &SExpr{Kind: "int", Lit: t.text}
	case "str":
		return &SExpr{Kind: "str", Lit: t.text}
	case "id":
		switch t.text {
		case "true", "false":
			return &SExpr{Kind: "bool", Lit: t.text}
		case "nil":
			return &SExpr{Kind: "nil", Lit: "nil"}
		}
		return &SExpr{Kind: "id", Name: t.text}
	case "op":
		if t.text == "(" {
			e := p.expr()
			p.expect(")")
			return e
		}
	}
	p.fail("unexpected %q", t.text)
	return nil
}
