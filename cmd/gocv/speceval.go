package main

// Evaluation of specification expressions over symbolic states.

import (
	"fmt"
	"go/token"
	"go/types"
	"math/big"
	"sort"
	"strings"

	"golang.org/x/tools/go/packages"
)

type TV struct {
	V Value
	T types.Type // nil for spec-only values (math ints, abstract sorts)
}

// stOf: the state in which a slice's contents are read (old(...) pins the entry state).
func (se *SpecEnv) stOf(a TV) *State {
	if sl, ok := a.V.(*SliceV); ok && sl.St != nil {
		return sl.St
	}
	return se.Cur
}

type Bindings struct {
	vals   map[string]TV
	parent *Bindings
}

func (b *Bindings) lookup(name string) (TV, bool) {
	for x := b; x != nil; x = x.parent {
		if v, ok := x.vals[name]; ok {
			return v, true
		}
	}
	return TV{}, false
}

type SpecEnv struct {
	C     *FCtx
	Pkg   *packages.Package
	B     *Bindings
	Cur   *State
	Old   *State
	Env   *Env      // for resolving Go locals by name (may be nil)
	At    token.Pos // position used to disambiguate shadowed locals
	facts []*Term   // facts collected while inside a quantifier
	inQ   int
	Root     *State // where type-invariant facts go while evaluating under old(...)
	GoalOnly bool // the expression is only ever used as a proof goal (never assumed)
}

type specFail string

func (se *SpecEnv) fail(f string, a ...interface{}) { panic(specFail(fmt.Sprintf(f, a...))) }

func (se *SpecEnv) withState(st *State) *SpecEnv {
	n := *se
	n.Cur = st
	return &n
}

// evalBool evaluates a boolean spec expression.
func (se *SpecEnv) evalBool(x *SExpr) *Term {
	v := se.eval(x)
	t, ok := v.V.(*Term)
	if !ok || t.Sort != SBool {
		se.fail("boolean expected: %s", x)
	}
	return t
}

func (se *SpecEnv) evalTerm(x *SExpr) *Term {
	v := se.eval(x)
	t, ok := v.V.(*Term)
	if !ok {
		se.fail("scalar expected: %s", x)
	}
	return t
}

// sink for type-invariant facts produced by loads during spec evaluation
func (se *SpecEnv) load(f func(st *State) Value, st *State) Value {
	tmp := &State{vars: st.vars, heap: st.heap, pc: nil, hav: st.hav}
	v := f(tmp)
	facts := tmp.pc.list()
	if se.inQ > 0 {
		se.facts = append(se.facts, facts...)
	} else {
		for _, ft := range facts {
			se.assumeFact(ft)
		}
	}
	return v
}

// assumeFact records a type invariant on the state the enclosing obligation is about (not on an old state).
func (se *SpecEnv) assumeFact(t *Term) {
	if se.Root != nil {
		se.Root.assume(t)
		return
	}
	se.Cur.assume(t)
}

func (se *SpecEnv) eval(x *SExpr) TV {
	c := se.C
	switch x.Kind {
	case "int":
		v, ok := new(big.Int).SetString(x.Lit, 0)
		if !ok {
			se.fail("bad integer literal %s", x.Lit)
		}
		return TV{IntBig(v), nil}
	case "bool":
		return TV{BoolC(x.Lit == "true"), types.Typ[types.Bool]}
	case "nil":
		return TV{IntC(0), types.Typ[types.UntypedNil]}
	case "str":
		return TV{c.stringConst(x.Lit), types.Typ[types.String]}
	case "id":
		return se.evalID(x.Name)
	case "old":
		n := *se
		n.Cur = se.Old
		if n.Root == nil {
			n.Root = se.Cur
		}
		n.facts = nil
		r := n.eval(x.Args[0])
		se.facts = append(se.facts, n.facts...)
		if sl, isS := r.V.(*SliceV); isS && sl.St == nil {
			cp := *sl
			cp.St = se.Old
			r.V = &cp
		}
		return r
	case "un":
		a := se.eval(x.Args[0])
		switch x.Op {
		case "!":
			return TV{Not(a.V.(*Term)), types.Typ[types.Bool]}
		case "-":
			t := a.V.(*Term)
			if t.Sort.IsBV() {
				return TV{Op("bvneg", t.Sort, t), a.T}
			}
			return TV{INeg(t), a.T}
		case "^":
			return TV{c.bitnot(a.V.(*Term), a.T), a.T}
		}
	case "cond":
		cd := se.evalBool(x.Args[0])
		a := se.eval(x.Args[1])
		b := se.eval(x.Args[2])
		at, ok1 := a.V.(*Term)
		bt, ok2 := b.V.(*Term)
		if !ok1 || !ok2 {
			mv, ok := c.mergeValues([]*Term{cd}, []Value{a.V, b.V})
			if !ok {
				se.fail("cannot form conditional %s", x)
			}
			return TV{mv, a.T}
		}
		at, bt = coerce2(at, bt)
		t := a.T
		if t == nil {
			t = b.T
		}
		return TV{Ite(cd, at, bt), t}
	case "bin":
		return se.evalBin(x)
	case "quant":
		return se.evalQuant(x)
	case "sel":
		return se.evalSel(x)
	case "index":
		a := se.eval(x.Args[0])
		i := se.idx(se.eval(x.Args[1]))
		sl, ok := se.asSlice(a)
		if !ok {
			se.fail("cannot index %s", x.Args[0])
		}
		v := se.load(func(st *State) Value { return c.loadElem(st, sl, i) }, se.stOf(a))
		return TV{V: v, T: sl.Elem}
	case "slice":
		a := se.eval(x.Args[0])
		sl, ok := se.asSlice(a)
		if !ok {
			se.fail("cannot slice %s", x.Args[0])
		}
		lo := c.idxC(0)
		hi := sl.Len
		if x.Args[1] != nil {
			lo = se.idx(se.eval(x.Args[1]))
		}
		if x.Args[2] != nil {
			hi = se.idx(se.eval(x.Args[2]))
		}
		t := a.T
		if t != nil {
			if _, isArr := t.Underlying().(*types.Array); isArr {
				t = types.NewSlice(sl.Elem)
			}
		}
		return TV{V: c.sliceOf(sl, lo, hi, nil), T: t}
	case "call":
		return se.evalCall(x)
	}
	se.fail("unsupported spec expression %s", x)
	return TV{}
}

func (se *SpecEnv) idx(v TV) *Term {
	t, ok := v.V.(*Term)
	if !ok {
		se.fail("index must be scalar")
	}
	if se.C.Mode == ModeBV {
		if t.Op == "int" {
			return BVC(t.Val, 64)
		}
		if t.Sort.IsBV() && t.Sort.BVWidth() != 64 {
			return se.C.convert(t, v.T, types.Typ[types.Int])
		}
	}
	return t
}

func (se *SpecEnv) asSlice(a TV) (*SliceV, bool) {
	c := se.C
	switch v := a.V.(type) {
	case *SliceV:
		return v, true
	case *Term:
		if a.T != nil {
			if p, ok := a.T.Underlying().(*types.Pointer); ok {
				if arr, ok := p.Elem().Underlying().(*types.Array); ok {
					return &SliceV{Base: v, Off: c.idxC(0), Len: c.idxC(arr.Len()), Cap: c.idxC(arr.Len()), Elem: arr.Elem()}, true
				}
			}
		}
	}
	return nil, false
}

func (se *SpecEnv) evalID(name string) TV {
	c := se.C
	if v, ok := se.B.lookup(name); ok {
		return v
	}
	// Go locals of the function under verification
	if se.Env != nil {
		if v, ok := se.lookupLocal(name); ok {
			return v
		}
	}
	// ghost globals
	if gt, ok := c.W.Specs.GhostVars[name]; ok {
		srt, gty := c.specSort(gt)
		arr := c.heapGet(se.Cur, "G$"+name, SArr(SInt, srt))
		return TV{Select(arr, IntC(0)), gty}
	}
	// package scope
	if se.Pkg != nil {
		if obj := se.Pkg.Types.Scope().Lookup(name); obj != nil {
			switch o := obj.(type) {
			case *types.Const:
				if v, ok := c.constTerm(o.Val(), o.Type()); ok {
					return TV{v, o.Type()}
				}
			case *types.Var:
				v := se.load(func(st *State) Value { return c.loadGlobal(st, o) }, se.Cur)
				return TV{v, o.Type()}
			}
		}
	}
	se.fail("unknown identifier %q", name)
	return TV{}
}

func (se *SpecEnv) lookupLocal(name string) (TV, bool) {
	if tv, ok := se.lookupLocal0(name); ok {
		return tv, true
	}
	// the baseline knows this name, the code has renamed the variable
	if obj, ok := se.C.renamed[name]; ok {
		if v, has := se.Env.getVar(se.Cur, obj); has {
			return TV{v, obj.Type()}, true
		}
	}
	return TV{}, false
}

func (se *SpecEnv) lookupLocal0(name string) (TV, bool) {
	// Go scoping at the point the clause is attached to
	if se.At.IsValid() && se.Pkg != nil && se.Pkg.Types != nil {
		if inner := se.Pkg.Types.Scope().Innermost(se.At); inner != nil {
			if _, obj := inner.LookupParent(name, se.At); obj != nil {
				if vr, isVar := obj.(*types.Var); isVar && obj.Parent() != se.Pkg.Types.Scope() && obj.Parent() != types.Universe {
					if v, ok := se.Env.getVar(se.Cur, vr); ok {
						return TV{v, vr.Type()}, true
					}
					return TV{}, false
				}
			}
			// not a Go local in scope here: synthetic variables (results, range indices) match by name, and so does
			// a local whose block has been left if it is the only variable of that name in the function
			var cand types.Object
			n := 0
			for obj := range se.Cur.vars {
				if obj.Name() != name {
					continue
				}
				if !obj.Pos().IsValid() {
					v, _ := se.Env.getVar(se.Cur, obj)
					return TV{v, obj.Type()}, true
				}
				cand = obj
			}
			if cand != nil && se.Pkg.TypesInfo != nil {
				lo, hi := se.C.funcExtent()
				for id, obj := range se.Pkg.TypesInfo.Defs {
					if obj != nil && id.Name == name && id.Pos() >= lo && id.Pos() <= hi {
						if _, isVar := obj.(*types.Var); isVar {
							n++
						}
					}
				}
				if n == 1 && cand.Pos() <= se.At {
					v, _ := se.Env.getVar(se.Cur, cand)
					return TV{v, cand.Type()}, true
				}
			}
			return TV{}, false
		}
	}
	var best types.Object
	// variables of the function under verification come before same-named leftovers of inlined callees (a callee's
	// receiver is often called like the caller's)
	lo, hi := se.C.funcExtent()
	own := false
	for obj := range se.Cur.vars {
		if obj.Name() == name && (!obj.Pos().IsValid() || (obj.Pos() >= lo && obj.Pos() <= hi)) {
			own = true
			break
		}
	}
	for obj := range se.Cur.vars {
		if obj.Name() != name {
			continue
		}
		if own && obj.Pos().IsValid() && (obj.Pos() < lo || obj.Pos() > hi) {
			continue
		}
		if best == nil {
			best = obj
			continue
		}
		// prefer the latest declaration not after the reference point
		if se.At.IsValid() {
			bOK := best.Pos() <= se.At
			oOK := obj.Pos() <= se.At
			if oOK && (!bOK || obj.Pos() > best.Pos()) {
				best = obj
			}
		} else if obj.Pos() > best.Pos() {
			best = obj
		}
	}
	if best == nil {
		return TV{}, false
	}
	v, _ := se.Env.getVar(se.Cur, best)
	return TV{v, best.Type()}, true
}

// specSort maps a spec type name to a sort and (if any) a Go type.
func (c *FCtx) specSort(name string) (Sort, types.Type) {
	switch name {
	case "int":
		return c.idxSort(), types.Typ[types.Int]
	case "bool":
		return SBool, types.Typ[types.Bool]
	case "bytes":
		return SBytes, nil
	case "key":
		return SKey, nil
	case "ref":
		return SInt, nil
	case "mathint":
		return SInt, nil
	case "uint64":
		return c.leafSort(types.Typ[types.Uint64]), types.Typ[types.Uint64]
	case "uint32":
		return c.leafSort(types.Typ[types.Uint32]), types.Typ[types.Uint32]
	case "uint16":
		return c.leafSort(types.Typ[types.Uint16]), types.Typ[types.Uint16]
	case "uint8", "byte":
		return c.leafSort(types.Typ[types.Uint8]), types.Typ[types.Uint8]
	case "int64":
		return c.leafSort(types.Typ[types.Int64]), types.Typ[types.Int64]
	case "int32":
		return c.leafSort(types.Typ[types.Int32]), types.Typ[types.Int32]
	case "uint":
		return c.leafSort(types.Typ[types.Uint]), types.Typ[types.Uint]
	}
	return SInt, nil
}

func (se *SpecEnv) evalQuant(x *SExpr) TV {
	c := se.C
	nb := &Bindings{vals: map[string]TV{}, parent: se.B}
	var vars []*Term
	var guards []*Term
	for vi, n := range x.Vars {
		vt := x.VType
		if vi < len(x.VTypes) {
			vt = x.VTypes[vi]
		}
		srt, gty := c.specSort(vt)
		v := Var(c.freshName(n), srt)
		vars = append(vars, v)
		nb.vals[n] = TV{v, gty}
		if gty != nil && vt != "int" {
			if f := c.rangeFact(gty, v); !f.IsTrue() {
				guards = append(guards, f)
			}
		}
	}
	n := *se
	n.B = nb
	n.inQ = se.inQ + 1
	n.facts = nil
	body := n.evalBool(x.Args[0])
	// type invariants of the values read under the quantifier hold for every instance: they are assumed as
	// separate universally quantified facts (so that the formula means the same as a hypothesis and as a goal)
	g := And(append(guards, TyInv(And(n.facts...)))...)
	if x.Op == "forall" {
		return TV{Forall(vars, Implies(g, body)), types.Typ[types.Bool]}
	}
	return TV{Exists(vars, And(g, body)), types.Typ[types.Bool]}
}

func (se *SpecEnv) evalBin(x *SExpr) TV {
	c := se.C
	bt := types.Typ[types.Bool]
	switch x.Op {
	case "&&":
		a := se.evalBool(x.Args[0])
		if a.IsFalse() {
			return TV{TFalse, bt}
		}
		return TV{And(a, se.evalBool(x.Args[1])), bt}
	case "||":
		return TV{Or(se.evalBool(x.Args[0]), se.evalBool(x.Args[1])), bt}
	case "==>":
		a := se.evalBool(x.Args[0])
		if a.IsFalse() {
			return TV{TTrue, bt}
		}
		if se.GoalOnly {
			// a goal may mention locals that exist only on the paths where the antecedent holds: where they are
			// missing the consequent counts as false, so the antecedent itself must be refutable on that path
			var b *Term
			func() {
				defer func() {
					if r := recover(); r != nil {
						if sf, ok := r.(specFail); ok && strings.Contains(string(sf), "unknown identifier") {
							b = TFalse
							return
						}
						panic(r)
					}
				}()
				b = se.evalBool(x.Args[1])
			}()
			return TV{Implies(a, b), bt}
		}
		return TV{Implies(a, se.evalBool(x.Args[1])), bt}
	case "<==>":
		return TV{Eq(se.evalBool(x.Args[0]), se.evalBool(x.Args[1])), bt}
	}
	a := se.eval(x.Args[0])
	b := se.eval(x.Args[1])
	switch x.Op {
	case "==", "!=":
		eq := se.specEq(a, b)
		if x.Op == "!=" {
			eq = Not(eq)
		}
		return TV{eq, bt}
	}
	at, ok1 := a.V.(*Term)
	bt2, ok2 := b.V.(*Term)
	if !ok1 || !ok2 {
		se.fail("scalar operands expected in %s", x)
	}
	t := a.T
	if t == nil || isUntyped(t) {
		t = b.T
	}
	if at.Sort == SKey || bt2.Sort == SKey {
		switch x.Op {
		case "<":
			return TV{Op("<", SBool, at, bt2), bt}
		case "<=":
			return TV{Op("<=", SBool, at, bt2), bt}
		case ">":
			return TV{Op(">", SBool, at, bt2), bt}
		case ">=":
			return TV{Op(">=", SBool, at, bt2), bt}
		}
	}
	switch x.Op {
	case "<", "<=", ">", ">=":
		op := map[string]token.Token{"<": token.LSS, "<=": token.LEQ, ">": token.GTR, ">=": token.GEQ}[x.Op]
		return TV{c.compare(op, at, bt2, t), bt}
	}
	op, ok := map[string]token.Token{"+": token.ADD, "-": token.SUB, "*": token.MUL, "/": token.QUO, "%": token.REM,
		"<<": token.SHL, ">>": token.SHR, "&": token.AND, "|": token.OR, "^": token.XOR, "&^": token.AND_NOT}[x.Op]
	if !ok {
		se.fail("unsupported operator %s", x.Op)
	}
	if t == nil {
		t = types.Typ[types.Int]
	}
	res := c.arith(op, at, bt2, t, true)
	if len(c.sideFacts) > 0 {
		if se.inQ > 0 {
			se.facts = append(se.facts, c.sideFacts...)
		} else {
			for _, f := range c.sideFacts {
				se.Cur.assume(f)
			}
		}
		c.sideFacts = nil
	}
	return TV{res, t}
}

func isUntyped(t types.Type) bool {
	b, ok := t.(*types.Basic)
	return ok && b.Info()&types.IsUntyped != 0
}

// specEq: scalars by value; slices by content (or against nil); structs fieldwise.
func (se *SpecEnv) specEq(a, b TV) *Term {
	c := se.C
	as, aIsS := a.V.(*SliceV)
	bs, bIsS := b.V.(*SliceV)
	if aIsS && bIsS {
		return se.contentEq2(as, se.stOf(a), bs, se.stOf(b))
	}
	if aIsS {
		if t, ok := b.V.(*Term); ok && t.IsConst() {
			return Eq(as.Base, IntC(0))
		}
	}
	if bIsS {
		if t, ok := a.V.(*Term); ok && t.IsConst() {
			return Eq(bs.Base, IntC(0))
		}
	}
	t := a.T
	if t == nil {
		t = b.T
	}
	return c.valueEq(a.V, b.V, t)
}

// contentEq: same length and equal elements.
func (se *SpecEnv) contentEq(a, b *SliceV) *Term {
	return se.contentEq2(a, se.Cur, b, se.Cur)
}

func (se *SpecEnv) contentEq2(a *SliceV, sa *State, b *SliceV, sb *State) *Term {
	c := se.C
	i := Var(c.freshName("k"), c.idxSort())
	n := *se
	n.inQ = se.inQ + 1
	n.facts = nil
	av := n.load(func(st *State) Value { return c.loadElem(st, a, i) }, sa)
	bv := n.load(func(st *State) Value { return c.loadElem(st, b, i) }, sb)
	eq := c.valueEq(av, bv, a.Elem)
	body := Implies(And(c.ile(c.idxC(0), i), c.ilt(i, a.Len)), eq)
	return And(Eq(a.Len, b.Len), Forall([]*Term{i}, body))
}

func (se *SpecEnv) evalSel(x *SExpr) TV {
	c := se.C
	// package-qualified name?
	if x.Args[0].Kind == "id" {
		if _, bound := se.B.lookup(x.Args[0].Name); !bound {
			p := c.W.ByName[x.Args[0].Name]
			if p == nil && se.Pkg != nil {
				for _, ip := range se.Pkg.Imports {
					if ip.Name == x.Args[0].Name {
						p = ip
					}
				}
			}
			if p != nil {
				if se.Env == nil || !se.hasLocal(x.Args[0].Name) {
					n := *se
					n.Pkg = p
					n.B = &Bindings{vals: map[string]TV{}}
					n.Env = nil
					return n.evalID(x.Name)
				}
			}
		}
	}
	a := se.eval(x.Args[0])
	return se.selectField(a, x.Name, x)
}

func (se *SpecEnv) hasLocal(name string) bool {
	for obj := range se.Cur.vars {
		if obj.Name() == name {
			return true
		}
	}
	return false
}

func (se *SpecEnv) selectField(a TV, name string, x *SExpr) TV {
	c := se.C
	if sv, ok := a.V.(*StructV); ok {
		if fv, ok := sv.F[name]; ok {
			s := structOf(sv.Typ)
			for i := 0; i < s.NumFields(); i++ {
				if s.Field(i).Name() == name {
					return TV{fv, s.Field(i).Type()}
				}
			}
		}
		se.fail("no field %s in %s", name, x)
	}
	ref, ok := a.V.(*Term)
	if !ok || a.T == nil {
		se.fail("cannot select %s from %s", name, x.Args[0])
	}
	owner := a.T
	if p, ok := owner.Underlying().(*types.Pointer); ok {
		owner = p.Elem()
	}
	// ghost field?
	skey := structKey(owner)
	for _, g := range c.W.Specs.Ghosts {
		if g.PkgName+"."+g.Recv == skey && g.Name == name {
			srt, gty := c.specSort(g.Type)
			arr := c.heapGet(se.Cur, "G$"+skey+"."+name, SArr(SInt, srt))
			return TV{Select(arr, ref), gty}
		}
	}
	s := structOf(owner)
	if s == nil {
		se.fail("%s is not a struct (selecting %s)", x.Args[0], name)
	}
	// direct or promoted field
	path := findFieldPath(s, name)
	if path == nil {
		se.fail("no field %s in %s", name, owner)
	}
	curT := owner
	curRef := ref
	for k, f := range path {
		if k == len(path)-1 {
			cr := curRef
			ct := curT
			if _, isStruct := f.Type().Underlying().(*types.Struct); isStruct {
				// a struct held by value: the spec sees a reference to the sub-object
				return TV{c.embRef(ct, f, cr), types.NewPointer(f.Type())}
			}
			v := se.load(func(st *State) Value { return c.loadField(st, cr, ct, f) }, se.Cur)
			return TV{v, f.Type()}
		}
		cr := curRef
		ct := curT
		if p, ok := f.Type().Underlying().(*types.Pointer); ok {
			v := se.load(func(st *State) Value { return c.loadField(st, cr, ct, f) }, se.Cur)
			curRef = v.(*Term)
			curT = p.Elem()
		} else {
			curRef = c.embRef(ct, f, cr)
			curT = f.Type()
		}
	}
	se.fail("field path")
	return TV{}
}

func findFieldPath(s *types.Struct, name string) []*types.Var {
	for i := 0; i < s.NumFields(); i++ {
		if s.Field(i).Name() == name {
			return []*types.Var{s.Field(i)}
		}
	}
	for i := 0; i < s.NumFields(); i++ {
		f := s.Field(i)
		if f.Embedded() {
			if es := structOf(f.Type()); es != nil {
				if p := findFieldPath(es, name); p != nil {
					return append([]*types.Var{f}, p...)
				}
			}
		}
	}
	return nil
}

func (se *SpecEnv) evalCall(x *SExpr) TV {
	c := se.C
	fn := x.Args[0]
	args := x.Args[1:]
	bt := types.Typ[types.Bool]
	if fn.Kind == "sel" {
		// pkg.Type(x) conversions or pred on receiver: w.wf()
		if p, ok := se.tryPredCall(fn, args); ok {
			return p
		}
	}
	if fn.Kind != "id" {
		se.fail("unsupported call %s", x)
	}
	name := fn.Name
	switch name {
	case "len", "cap":
		a := se.eval(args[0])
		// abstracted keys have a length (capacity is not modelled: at least the length)
		switch k := a.V.(type) {
		case *KeyV:
			return TV{k.Len, types.Typ[types.Int]}
		case *IKeyV:
			return TV{IAdd(k.U.Len, IntC(8)), types.Typ[types.Int]}
		}
		sl, ok := se.asSlice(a)
		if !ok {
			se.fail("len of non-slice %s", args[0])
		}
		if name == "cap" {
			return TV{sl.Cap, types.Typ[types.Int]}
		}
		return TV{sl.Len, types.Typ[types.Int]}
	case "le16", "le32", "le64":
		a := se.eval(args[0])
		sl, ok := se.asSlice(a)
		if !ok {
			se.fail("%s of non-slice", name)
		}
		at := se.idx(se.eval(args[1]))
		w := map[string]int{"le16": 2, "le32": 4, "le64": 8}[name]
		ty := map[string]types.Type{"le16": types.Typ[types.Uint16], "le32": types.Typ[types.Uint32], "le64": types.Typ[types.Uint64]}[name]
		v := se.load(func(st *State) Value { return c.leLoad(st, sl, at, w) }, se.stOf(a))
		return TV{V: v, T: ty}
	case "bytes":
		a := se.eval(args[0])
		sl, ok := se.asSlice(a)
		if !ok {
			se.fail("bytes of non-slice")
		}
		return TV{V: c.bytesOf(se.stOf(a), sl)}
	case "kcmp", "lexk":
		// user-key order (kcmp) / bytewise order (lexk) on abstract keys
		ra := se.keyRank(se.eval(args[0]))
		rb := se.keyRank(se.eval(args[1]))
		if name == "lexk" {
			ra, rb = c.lof(se.Cur, ra), c.lof(se.Cur, rb)
		}
		return TV{cmp3(ra, rb), types.Typ[types.Int]}
	case "krank":
		// the position of an abstract user key in the user order (equal for equal keys)
		return TV{se.keyRank(se.eval(args[0])), nil}
	case "ikcmp":
		a, ok1 := se.eval(args[0]).V.(*IKeyV)
		b, ok2 := se.eval(args[1]).V.(*IKeyV)
		if !ok1 || !ok2 {
			se.fail("ikcmp needs internal keys (abstract keys)")
		}
		return TV{ikcmpTerm(a, b), types.Typ[types.Int]}
	case "ukeyof", "numof", "seqof", "kindof":
		a, ok := se.eval(args[0]).V.(*IKeyV)
		if !ok {
			se.fail("%s needs an internal key (abstract keys)", name)
		}
		switch name {
		case "ukeyof":
			return TV{a.U, types.NewSlice(types.Typ[types.Uint8])}
		case "numof":
			return TV{a.Num, types.Typ[types.Uint64]}
		case "seqof":
			return TV{IDivE(a.Num, IntC(256)), types.Typ[types.Uint64]}
		default:
			return TV{IModE(a.Num, IntC(256)), types.Typ[types.Uint64]}
		}
	case "mkikey":
		u, ok := se.eval(args[0]).V.(*KeyV)
		if !ok {
			se.fail("mkikey needs a user key")
		}
		seq := se.evalTerm(args[1])
		kt := se.evalTerm(args[2])
		return TV{&IKeyV{U: &KeyV{Rank: u.Rank, Nil: TFalse, Len: u.Len}, Num: IAdd(IMul(seq, IntC(256)), kt)}, nil}
	case "isnil":
		a := se.eval(args[0])
		if k, ok := a.V.(*IKeyV); ok {
			return TV{k.U.Nil, bt}
		}
		if sl, ok := a.V.(*SliceV); ok {
			return TV{Eq(sl.Base, IntC(0)), bt}
		}
		if k, ok := a.V.(*KeyV); ok {
			return TV{k.Nil, bt}
		}
		return TV{Eq(a.V.(*Term), IntC(0)), bt}
	case "sameslice":
		a, _ := se.asSlice(se.eval(args[0]))
		b, _ := se.asSlice(se.eval(args[1]))
		if a == nil || b == nil {
			se.fail("sameslice needs slices")
		}
		return TV{And(Eq(a.Base, b.Base), Eq(a.Off, b.Off), Eq(a.Len, b.Len)), bt}
	case "samebase":
		a, _ := se.asSlice(se.eval(args[0]))
		b, _ := se.asSlice(se.eval(args[1]))
		if a == nil || b == nil {
			se.fail("samebase needs slices")
		}
		return TV{And(Eq(a.Base, b.Base), Eq(a.Off, b.Off)), bt}
	case "sameblock":
		// the two slices point into the same allocated array (nil slices share nothing)
		a, _ := se.asSlice(se.eval(args[0]))
		b, _ := se.asSlice(se.eval(args[1]))
		if a == nil || b == nil {
			se.fail("sameblock needs slices")
		}
		return TV{And(Eq(a.Base, b.Base), Not(Eq(a.Base, IntC(0)))), bt}
	case "base":
		a, _ := se.asSlice(se.eval(args[0]))
		if a == nil {
			se.fail("base needs a slice")
		}
		return TV{a.Base, nil}
	case "unchanged":
		// unchanged(s): the whole backing array of s is what it was in the old state
		a, _ := se.asSlice(se.eval(args[0]))
		if a == nil {
			se.fail("unchanged needs a slice")
		}
		var cs []*Term
		for _, lf := range c.memLeaves(a.Elem) {
			ms := SArr(SInt, SArr(c.idxSort(), lf.S))
			cs = append(cs, Eq(Select(c.heapGet(se.Cur, lf.Path, ms), a.Base), Select(c.heapGet(se.Old, lf.Path, ms), a.Base)))
		}
		return TV{And(cs...), bt}
	case "freshbase":
		a, _ := se.asSlice(se.eval(args[0]))
		if a == nil {
			se.fail("freshbase needs a slice")
		}
		return TV{IGe(a.Base, c.heapGet(se.Old, "$alloc", SInt)), bt}
	case "disjoint":
		a, _ := se.asSlice(se.eval(args[0]))
		b, _ := se.asSlice(se.eval(args[1]))
		if a == nil || b == nil {
			se.fail("disjoint needs slices")
		}
		return TV{Or(Neq(a.Base, b.Base), c.ile(c.iadd(a.Off, a.Cap), b.Off), c.ile(c.iadd(b.Off, b.Cap), a.Off)), bt}
	case "held", "rheld":
		return se.evalHeld(name, args[0])
	case "int", "uint64", "uint32", "uint16", "uint8", "byte", "int64", "int32", "uint", "mathint":
		a := se.eval(args[0])
		t, ok := a.V.(*Term)
		if !ok {
			se.fail("conversion of non-scalar")
		}
		_, to := c.specSort(name)
		if name == "mathint" {
			return TV{t, nil}
		}
		from := a.T
		if from == nil {
			if t.Op == "int" {
				return TV{c.intConst(t.Val, to), to}
			}
			from = types.Typ[types.Int]
		}
		return TV{c.convert(t, from, to), to}
	case "min", "max":
		a := se.evalTerm(args[0])
		b := se.evalTerm(args[1])
		a, b = coerce2(a, b)
		if name == "min" {
			return TV{Ite(c.ile(a, b), a, b), types.Typ[types.Int]}
		}
		return TV{Ite(c.ile(a, b), b, a), types.Typ[types.Int]}
	case "ite":
		cd := se.evalBool(args[0])
		a := se.eval(args[1])
		b := se.eval(args[2])
		at, bt2 := coerce2(a.V.(*Term), b.V.(*Term))
		return TV{Ite(cd, at, bt2), a.T}
	}
	if sf, ok := c.W.Specs.SpecFuncs[name]; ok {
		return se.applySpecFunc(sf, args, x)
	}
	if p, ok := se.findPred(name); ok {
		if len(args) != 1 {
			se.fail("predicate %s takes the receiver", name)
		}
		a := se.eval(args[0])
		return se.applyPred(p, a)
	}
	if v, ok := c.protoSpecCall(se, name, args); ok {
		return v
	}
	se.fail("unknown spec function %q", name)
	return TV{}
}

func (se *SpecEnv) findPred(name string) (*Pred, bool) {
	var found *Pred
	for k, p := range se.C.W.Specs.Preds {
		if strings.HasSuffix(k, "."+name) {
			if se.Pkg != nil && p.PkgName == se.Pkg.Name {
				return p, true
			}
			found = p
		}
	}
	return found, found != nil
}

func (se *SpecEnv) tryPredCall(fn *SExpr, args []*SExpr) (TV, bool) {
	if len(args) != 0 {
		return TV{}, false
	}
	p, ok := se.findPred(fn.Name)
	if !ok {
		return TV{}, false
	}
	a := se.eval(fn.Args[0])
	return se.applyPred(p, a), true
}

func (se *SpecEnv) applyPred(p *Pred, recv TV) TV {
	n := *se
	n.B = &Bindings{vals: map[string]TV{p.RecvVar: recv}}
	n.Env = nil
	n.Pkg = se.C.W.ByName[p.PkgName]
	n.facts = nil
	r := n.evalBool(p.Body)
	se.facts = append(se.facts, n.facts...)
	return TV{r, types.Typ[types.Bool]}
}

func (se *SpecEnv) applySpecFunc(sf *SpecFunc, args []*SExpr, x *SExpr) TV {
	c := se.C
	if len(args) != len(sf.Params) {
		se.fail("%s expects %d arguments", sf.Name, len(sf.Params))
	}
	var avs []TV
	for _, a := range args {
		avs = append(avs, se.eval(a))
	}
	if sf.Body != nil && !sf.Rec {
		n := *se
		n.B = &Bindings{vals: map[string]TV{}}
		n.Env = nil
		n.Pkg = c.W.ByName[sf.PkgName]
		n.facts = nil
		for i, p := range sf.Params {
			n.B.vals[p.Name] = avs[i]
		}
		r := n.eval(sf.Body)
		se.facts = append(se.facts, n.facts...)
		return r
	}
	if sf.Rec && sf.Body != nil {
		for _, p := range sf.Params {
			if p.Type == "ref" {
				return se.applyHeapRec(sf, avs)
			}
		}
	}
	// uninterpreted (or recursive: uninterpreted + unfolding axioms)
	var targs []*Term
	for i, p := range sf.Params {
		targs = append(targs, se.specArg(avs[i], p.Type, sf.Name))
	}
	rs, rt := c.specSort(sf.Result)
	c.needAxioms("spec:" + sf.Name)
	app := App(sf.Name, rs, targs...)
	if sf.Rec && sf.Body != nil && se.inQ == 0 {
		key := app.String()
		if c.recSeen == nil {
			c.recSeen = map[string]bool{}
		}
		if !c.recSeen[key] && len(c.recApps) < 200 {
			c.recSeen[key] = true
			var tvs []TV
			for i, p := range sf.Params {
				_, pt := c.specSort(p.Type)
				tvs = append(tvs, TV{targs[i], pt})
			}
			c.recApps = append(c.recApps, recApp{sf: sf, args: tvs, app: app})
			// one unfolding of the definition at this application (a definitional fact)
			n := *se
			n.B = &Bindings{vals: map[string]TV{}}
			n.Env = nil
			n.Pkg = c.W.ByName[sf.PkgName]
			for i, p := range sf.Params {
				n.B.vals[p.Name] = tvs[i]
			}
			c.recDepth++
			if c.recDepth <= 2 {
				body := n.eval(sf.Body)
				if bt, ok := body.V.(*Term); ok {
					se.Cur.assume(Eq(app, coerce(bt, app.Sort)))
				}
			}
			c.recDepth--
		}
	}
	return TV{app, rt}
}

// applyHeapRec: a recursive spec function over a slice (parameter type ref), e.g. a sum over the elements. It is an
// uninterpreted function of its scalar arguments, the slice's base and offset, and the heap arrays its body reads
// (found by evaluating the body once); each application outside a quantifier gets one unfolding of the definition
// in the state it is evaluated in.
func (se *SpecEnv) applyHeapRec(sf *SpecFunc, avs []TV) TV {
	c := se.C
	bind := func(n *SpecEnv) {
		n.B = &Bindings{vals: map[string]TV{}}
		n.Env = nil
		n.Pkg = c.W.ByName[sf.PkgName]
		for i, p := range sf.Params {
			n.B.vals[p.Name] = avs[i]
		}
	}
	if c.recHeapKeys == nil {
		c.recHeapKeys = map[string][]string{}
	}
	keys, known := c.recHeapKeys[sf.Name]
	if !known {
		if c.recProbing[sf.Name] {
			// the recursive application inside the probe
			rs, rt := c.specSort(sf.Result)
			return TV{c.freshVar("probe", rs), rt}
		}
		if c.recProbing == nil {
			c.recProbing = map[string]bool{}
		}
		c.recProbing[sf.Name] = true
		c.probeKeys = map[string]bool{}
		n := *se
		n.Cur = se.Cur.clone()
		bind(&n)
		n.facts = nil
		n.eval(sf.Body)
		for k := range c.probeKeys {
			if !isGhostKey(k) {
				keys = append(keys, k)
			}
		}
		sort.Strings(keys)
		c.probeKeys = nil
		delete(c.recProbing, sf.Name)
		c.recHeapKeys[sf.Name] = keys
	}
	var targs []*Term
	for i, p := range sf.Params {
		if p.Type == "ref" {
			sl, ok := se.asSlice(avs[i])
			if !ok || sl == nil {
				se.fail("%s: slice argument expected", sf.Name)
			}
			targs = append(targs, sl.Base, sl.Off)
			continue
		}
		targs = append(targs, se.specArg(avs[i], p.Type, sf.Name))
	}
	for _, k := range keys {
		targs = append(targs, c.heapGet(se.Cur, k, c.keySorts[k]))
	}
	rs, rt := c.specSort(sf.Result)
	app := App(sf.Name, rs, targs...)
	if se.inQ == 0 {
		key := app.String()
		if c.recSeen == nil {
			c.recSeen = map[string]bool{}
		}
		// (the unfolding is a fact of the state it is evaluated in: it is stated every time, on every path)
		_ = key
		if len(c.recApps) < 3000 {
			c.recApps = append(c.recApps, recApp{sf: sf, app: app})
			c.recDepth++
			if c.recDepth <= 2 {
				n := *se
				bind(&n)
				body := n.eval(sf.Body)
				if bt, ok := body.V.(*Term); ok {
					se.assumeFact(Eq(app, coerce(bt, app.Sort)))
				}
			}
			c.recDepth--
		}
	}
	return TV{app, rt}
}

// specArg converts an argument to the declared spec parameter type.
func (se *SpecEnv) specArg(a TV, ptype, fname string) *Term {
	c := se.C
	switch ptype {
	case "bytes", "[]byte":
		if sl, ok := se.asSlice(a); ok {
			return c.bytesOf(se.stOf(a), sl)
		}
		if t, ok := a.V.(*Term); ok && t.Sort == SBytes {
			return t
		}
		se.fail("%s: byte slice expected", fname)
	case "key":
		if k, ok := a.V.(*KeyV); ok {
			return k.Rank
		}
	}
	t, ok := a.V.(*Term)
	if !ok {
		se.fail("%s: scalar argument expected", fname)
	}
	srt, _ := c.specSort(ptype)
	return coerce(t, srt)
}

// keyRank: the rank of an abstract user key (a KeyV or a quantified variable of spec type key).
func (se *SpecEnv) keyRank(a TV) *Term {
	switch k := a.V.(type) {
	case *KeyV:
		return k.Rank
	case *Term:
		if k.Sort == SKey {
			return k
		}
	}
	se.fail("abstract user key expected")
	return nil
}

// evalHeld: held(x.mu) — ghost lock counter of the lock field at object x.
func (se *SpecEnv) evalHeld(kind string, arg *SExpr) TV {
	c := se.C
	if arg.Kind != "sel" {
		se.fail("held(...) expects obj.lockfield")
	}
	obj := se.eval(arg.Args[0])
	ref, ok := obj.V.(*Term)
	if !ok || obj.T == nil {
		se.fail("held: object expected")
	}
	key := c.lockKey(obj.T, arg.Name, kind == "rheld")
	arr := c.heapGet(se.Cur, key, SArr(SInt, SInt))
	return TV{Select(arr, ref), nil}
}

func (c *FCtx) lockKey(owner types.Type, field string, r bool) string {
	p := "L$"
	if r {
		p = "L$R$"
	}
	return p + structKey(owner) + "." + field
}

// ---- modifies ----

func splitTopLevel(s string, sep byte) []string {
	var out []string
	depth := 0
	start := 0
	for i := 0; i < len(s); i++ {
		switch s[i] {
		case '(', '[':
			depth++
		case ')', ']':
			depth--
		default:
			if s[i] == sep && depth == 0 {
				out = append(out, strings.TrimSpace(s[start:i]))
				start = i + 1
			}
		}
	}
	out = append(out, strings.TrimSpace(s[start:]))
	return out
}

// havocModifies forgets the locations named by a modifies clause.
func (se *SpecEnv) havocModifies(text string, st *State) {
	c := se.C
	for _, item := range splitTopLevel(text, ',') {
		if item == "" || item == "nothing" {
			continue
		}
		if item == "heap" {
			c.havocAll(st, "modifies heap")
			continue
		}
		if item == "allbytes" {
			k := c.memKey(types.Typ[types.Uint8])
			var bs Sort = SInt
			if c.Mode == ModeBV {
				bs = SBV(8)
			}
			st.heap[k] = c.freshVar(k, SArr(SInt, SArr(c.idxSort(), bs)))
			continue
		}
		if strings.HasSuffix(item, ".*") {
			ex, err := parseSpec(strings.TrimSuffix(item, ".*"))
			if err != nil {
				se.fail("modifies: %v", err)
			}
			obj := se.withState(st).eval(ex)
			se.havocObject(obj, st)
			continue
		}
		if strings.HasSuffix(item, "[*]") {
			item = strings.TrimSuffix(item, "[*]") + "[:]"
		}
		ex, err := parseSpec(item)
		if err != nil {
			se.fail("modifies: %v", err)
		}
		switch ex.Kind {
		case "sel":
			obj := se.withState(st).eval(ex.Args[0])
			se.havocField(obj, ex.Name, st)
		case "slice", "index":
			n := se.withState(st)
			a := n.eval(ex.Args[0])
			sl, ok := n.asSlice(a)
			if !ok {
				se.fail("modifies: not a slice: %s", item)
			}
			lo := c.idxC(0)
			hi := sl.Len
			if ex.Kind == "index" {
				lo = n.idx(n.eval(ex.Args[1]))
				hi = c.iadd(lo, c.idxC(1))
			} else {
				if ex.Args[1] != nil {
					lo = n.idx(n.eval(ex.Args[1]))
				}
				if ex.Args[2] != nil {
					hi = n.idx(n.eval(ex.Args[2]))
				}
			}
			c.havocRange(st, sl, lo, hi)
		case "id":
			// ghost global
			if gt, ok := c.W.Specs.GhostVars[ex.Name]; ok {
				srt, _ := c.specSort(gt)
				st.heap["G$"+ex.Name] = c.freshVar("G$"+ex.Name, SArr(SInt, srt))
				continue
			}
			se.fail("modifies: unsupported item %s", item)
		case "call":
			if ex.Args[0].Kind == "id" && (ex.Args[0].Name == "held" || ex.Args[0].Name == "rheld") {
				arg := ex.Args[1]
				obj := se.withState(st).eval(arg.Args[0])
				key := c.lockKey(obj.T, arg.Name, ex.Args[0].Name == "rheld")
				arr := c.heapGet(st, key, SArr(SInt, SInt))
				c.heapSet(st, key, Store(arr, obj.V.(*Term), c.freshVar("held", SInt)))
				continue
			}
			se.fail("modifies: unsupported item %s", item)
		default:
			se.fail("modifies: unsupported item %s", item)
		}
	}
}

func (c *FCtx) havocRange(st *State, sl *SliceV, lo, hi *Term) {
	for _, lf := range c.memLeaves(sl.Elem) {
		memS := SArr(SInt, SArr(c.idxSort(), lf.S))
		mem := c.heapGet(st, lf.Path, memS)
		old := Select(mem, sl.Base)
		na := c.freshVar("hv", SArr(c.idxSort(), lf.S))
		i := Var(c.freshName("i"), c.idxSort())
		in := And(c.ile(c.iadd(sl.Off, lo), i), c.ilt(i, c.iadd(sl.Off, hi)))
		st.assume(&Term{Op: "forall", Bound: []*Term{i}, Sort: SBool, Args: []*Term{
			Implies(Not(in), Eq(Select(na, i), Select(old, i)))}, Pats: [][]*Term{{Select(na, i)}}})
		c.heapSet(st, lf.Path, Store(mem, sl.Base, na))
		if lf.Path == c.memKey(types.Typ[types.Uint8]) {
			c.RowFrames = append(c.RowFrames, rowFrame{na: na, old: old, lo: c.iadd(sl.Off, lo), hi: c.iadd(sl.Off, hi)})
		}
	}
}

func (se *SpecEnv) havocField(obj TV, name string, st *State) {
	c := se.C
	ref, ok := obj.V.(*Term)
	if !ok || obj.T == nil {
		se.fail("modifies: object expected for field %s", name)
	}
	owner := obj.T
	if p, ok := owner.Underlying().(*types.Pointer); ok {
		owner = p.Elem()
	}
	skey := structKey(owner)
	for _, g := range c.W.Specs.Ghosts {
		if g.PkgName+"."+g.Recv == skey && g.Name == name {
			srt, _ := c.specSort(g.Type)
			key := "G$" + skey + "." + name
			arr := c.heapGet(st, key, SArr(SInt, srt))
			c.heapSet(st, key, Store(arr, ref, c.freshVar("g_"+name, srt)))
			return
		}
	}
	s := structOf(owner)
	if s == nil {
		se.fail("modifies: %s is not a struct", owner)
	}
	path := findFieldPath(s, name)
	if len(path) != 1 {
		se.fail("modifies: field %s not found directly in %s", name, owner)
	}
	f := path[0]
	if a, isArr := f.Type().Underlying().(*types.Array); isArr {
		sl := c.loadField(st, ref, owner, f).(*SliceV)
		c.havocRange(st, sl, c.idxC(0), c.idxC(a.Len()))
		return
	}
	nv, facts := c.freshValue(f.Type(), "m_"+name)
	c.storeField(st, ref, owner, f, nv)
	for _, ft := range facts {
		st.assume(ft)
	}
}

func (se *SpecEnv) havocObject(obj TV, st *State) {
	owner := obj.T
	if owner == nil {
		se.fail("modifies x.*: typed object expected")
	}
	if p, ok := owner.Underlying().(*types.Pointer); ok {
		owner = p.Elem()
	}
	s := structOf(owner)
	if s == nil {
		se.fail("modifies x.*: struct expected")
	}
	for i := 0; i < s.NumFields(); i++ {
		se.havocField(obj, s.Field(i).Name(), st)
	}
	skey := structKey(owner)
	for _, g := range se.C.W.Specs.Ghosts {
		if g.PkgName+"."+g.Recv == skey {
			se.havocField(obj, g.Name, st)
		}
	}
}

// ---- loop invariants ----

type loopInv struct {
	label string
	text  string
	eval  func(e *Env, st *State, entry *State) *Term
}

func (c *FCtx) loopInvariants(e *Env, spec *LoopSpec, ordinal int, at token.Pos) []loopInv {
	var out []loopInv
	// implicit range-index bounds
	for pos, ri := range c.rangeIdx {
		if c.loopOrd[pos] == ordinal {
			idx, n := ri.idx, ri.n
			out = append(out, loopInv{label: "range-index", text: "0 <= index <= len", eval: func(e *Env, st *State, entry *State) *Term {
				i, ok := st.vars[idx].(*Term)
				if !ok {
					return TTrue
				}
				return And(c.ile(c.idxC(0), i), c.ile(i, n))
			}})
		}
	}
	out = append(out, c.protoLoopInvariants(e, ordinal)...)
	if spec == nil {
		return out
	}
	for i, inv := range spec.Invs {
		inv := inv
		label := inv.Label
		if label == "" {
			label = fmt.Sprintf("%d", i+1)
		}
		out = append(out, loopInv{label: label, text: inv.Text, eval: func(e *Env, st *State, entry *State) *Term {
			saved := c.specAt
			c.specAt = at
			defer func() { c.specAt = saved }()
			return c.evalSpecTerm(e, inv.Expr, st, c.entry, nil)
		}})
	}
	return out
}

// evalSpecTerm evaluates a spec expression inside the function under verification.
func (c *FCtx) evalSpecTerm(e *Env, x *SExpr, st *State, old *State, extra map[string]TV) *Term {
	se := c.specEnvFor(e, st, old, extra)
	v := se.eval(x)
	t, ok := v.V.(*Term)
	if !ok {
		panic(specFail(fmt.Sprintf("scalar expected: %s", x)))
	}
	return t
}

func (c *FCtx) specEnvFor(e *Env, st *State, old *State, extra map[string]TV) *SpecEnv {
	b := &Bindings{vals: map[string]TV{}, parent: c.topBindings}
	for k, v := range extra {
		b.vals[k] = v
	}
	// rangeidx: hidden index of the innermost range loop known
	se := &SpecEnv{C: c, Pkg: e.Pkg, B: b, Cur: st, Old: old, Env: e, At: c.specAt}
	var names []string
	for obj := range st.vars {
		if strings.HasPrefix(obj.Name(), "range$") {
			names = append(names, obj.Name())
		}
	}
	sort.Strings(names)
	for obj, v := range st.vars {
		if strings.HasPrefix(obj.Name(), "range$") {
			b.vals["rangeidx"+strings.TrimPrefix(obj.Name(), "range$")] = TV{v, types.Typ[types.Int]}
			if len(names) > 0 && obj.Name() == names[len(names)-1] {
				b.vals["rangeidx"] = TV{v, types.Typ[types.Int]}
			}
		}
	}
	return se
}

// closeFacts quantifies type-invariant facts over the bound variables, one quantifier per fact, triggered on the
// heap read the fact is about (so that an instance is produced exactly when that read occurs in the query).
func closeFacts(vars []*Term, facts []*Term) *Term {
	var out []*Term
	seen := map[string]bool{}
	for _, f := range facts {
		k := f.String()
		if seen[k] {
			continue
		}
		seen[k] = true
		q := Forall(vars, f)
		if q.Op == "forall" {
			if pt := triggerFor(vars, f); pt != nil {
				q.Pats = [][]*Term{{pt}}
			}
		}
		out = append(out, q)
	}
	return And(out...)
}

func triggerFor(vars []*Term, t *Term) *Term {
	if t.Op == "forall" || t.Op == "exists" {
		return nil
	}
	if t.Op == "select" || t.Op == "app" {
		all := true
		for _, v := range vars {
			if !mentions(t, v) {
				all = false
				break
			}
		}
		if all {
			return t
		}
	}
	for _, a := range t.Args {
		if r := triggerFor(vars, a); r != nil {
			return r
		}
	}
	return nil
}

func mentions(t, v *Term) bool {
	if t == v || (t.Op == "var" && v.Op == "var" && t.Name == v.Name) {
		return true
	}
	for _, a := range t.Args {
		if mentions(a, v) {
			return true
		}
	}
	return false
}

func (c *FCtx) funcExtent() (token.Pos, token.Pos) {
	if c.FI != nil && c.FI.Decl != nil {
		return c.FI.Decl.Pos(), c.FI.Decl.End()
	}
	return token.NoPos, token.NoPos
}
