package main

// Protocol layer: ghost state for locks, channels used as locks, events; hooks called by the executor.

import (
	"fmt"
	"go/ast"
	"go/token"
	"go/types"
	"os"
	"sort"
	"strings"
)

// lockFieldOf recognises x.mu (sync.Mutex / sync.RWMutex field) receivers; returns owner ref, owner type, field.
func (e *Env) lockFieldOf(recv ast.Expr, st *State) (*Term, types.Type, string, bool) {
	recv = stripParens(recv)
	if u, ok := recv.(*ast.UnaryExpr); ok && u.Op == token.AND {
		recv = stripParens(u.X)
	}
	sx, ok := recv.(*ast.SelectorExpr)
	if !ok {
		return nil, nil, "", false
	}
	sel := e.Info.Selections[sx]
	if sel == nil || sel.Kind() != types.FieldVal {
		return nil, nil, "", false
	}
	ref, owner, fld, ok := e.fieldAddr(sx, st)
	if !ok {
		return nil, nil, "", false
	}
	return ref, owner, fld.Name(), true
}

func isSyncLockType(t types.Type) bool {
	if p, ok := t.(*types.Pointer); ok {
		t = p.Elem()
	}
	n := namedOf(t)
	if n == nil || n.Obj().Pkg() == nil {
		return false
	}
	return n.Obj().Pkg().Path() == "sync" && (n.Obj().Name() == "Mutex" || n.Obj().Name() == "RWMutex")
}

func (c *FCtx) protoCall(e *Env, st *State, call *ast.CallExpr, cl callee, recvVal Value, args []Value) (Value, bool) {
	full := cl.full
	switch full {
	case "(*sync.Mutex).Lock", "(*sync.RWMutex).Lock", "(*sync.Mutex).Unlock", "(*sync.RWMutex).Unlock",
		"(*sync.RWMutex).RLock", "(*sync.RWMutex).RUnlock", "(*sync.Mutex).TryLock":
		var ref *Term
		var owner types.Type
		var fld string
		ok := false
		if fc := e.fixed[call]; fc != nil && fc.lockRef != nil {
			ref, owner, fld, ok = fc.lockRef, fc.lockOwner, fc.lockField, true
		} else {
			ref, owner, fld, ok = e.lockFieldOf(cl.recv, st)
		}
		if !ok {
			// a lock that is not a struct field (local or global): tracked under a name
			key := "L$local." + exprString(cl.recv)
			c.lockOp(st, key, IntC(0), cl.fn.Name(), call.Pos(), exprString(cl.recv))
			return IntC(0), true
		}
		r := strings.HasPrefix(cl.fn.Name(), "R")
		key := c.lockKey(owner, fld, r)
		c.lockOp(st, key, ref, cl.fn.Name(), call.Pos(), structKey(owner)+"."+fld)
		return IntC(0), true
	case "(*sync.WaitGroup).Add", "(*sync.WaitGroup).Done", "(*sync.WaitGroup).Wait",
		"(*sync.Cond).Wait", "(*sync.Cond).Signal", "(*sync.Cond).Broadcast", "(*sync.Once).Do":
		if full == "(*sync.Once).Do" && len(call.Args) == 1 {
			// body runs at most once: executed non-deterministically is out of scope; havoc
			c.havocForCall(e, st, nil, call)
		}
		return IntC(0), true
	}
	if strings.HasPrefix(full, "sync/atomic.") || strings.HasPrefix(full, "(*sync/atomic.") {
		return c.atomicModel(e, st, call, cl, recvVal, args)
	}
	return nil, false
}

func exprString(x ast.Expr) string {
	switch y := x.(type) {
	case *ast.Ident:
		return y.Name
	case *ast.SelectorExpr:
		return exprString(y.X) + "." + y.Sel.Name
	case *ast.StarExpr:
		return "*" + exprString(y.X)
	case *ast.ParenExpr:
		return exprString(y.X)
	case *ast.UnaryExpr:
		return y.Op.String() + exprString(y.X)
	case *ast.CallExpr:
		return exprString(y.Fun) + "()"
	case *ast.IndexExpr:
		return exprString(y.X) + "[]"
	}
	return "?"
}

func (c *FCtx) lockOp(st *State, key string, ref *Term, op string, pos token.Pos, name string) {
	arr := c.heapGet(st, key, SArr(SInt, SInt))
	cur := Select(arr, ref)
	c.locksTouched[key] = name
	// lock counters are never negative (every decrement is guarded by an unlock-held obligation)
	st.assume(IGe(Select(Var(key+"@pre", SArr(SInt, SInt)), ref), IntC(0)))
	if op == "Lock" || op == "RLock" {
		st.assume(IGe(cur, IntC(0)))
	}
	switch op {
	case "Lock", "RLock":
		c.heapSet(st, key, Store(arr, ref, IAdd(cur, IntC(1))))
	case "Unlock", "RUnlock":
		if c.LockChecks {
			n := c.siteOrdinal("unlock", pos)
			c.oblige(st, "unlock", fmt.Sprintf("unlock-held(%s)#%d", name, n), pos, IGe(cur, IntC(1)), "unlock of a lock this thread holds")
		}
		c.heapSet(st, key, Store(arr, ref, ISub(cur, IntC(1))))
	case "TryLock":
		// result ignored here; callers using TryLock are outside the subset
		c.heapSet(st, key, Store(arr, ref, c.freshVar("trylock", SInt)))
	}
}

func (c *FCtx) atomicModel(e *Env, st *State, call *ast.CallExpr, cl callee, recvVal Value, args []Value) (Value, bool) {
	name := cl.fn.Name()
	// package-level functions on *T: atomic.LoadInt32(&x.f) etc.
	if cl.recv == nil && len(call.Args) >= 1 {
		target := stripParens(call.Args[0])
		if u, ok := target.(*ast.UnaryExpr); ok && u.Op == token.AND {
			lv := u.X
			t := e.Info.TypeOf(lv)
			switch {
			case strings.HasPrefix(name, "Load"):
				return e.eval(lv, st), true
			case strings.HasPrefix(name, "Store"):
				e.assignTo(lv, args[1], st)
				return IntC(0), true
			case strings.HasPrefix(name, "Add"):
				cur, ok1 := e.eval(lv, st).(*Term)
				d, ok2 := args[1].(*Term)
				if ok1 && ok2 {
					nv := c.arith(token.ADD, cur, coerce(d, cur.Sort), t, false)
					e.assignTo(lv, nv, st)
					return nv, true
				}
			case strings.HasPrefix(name, "CompareAndSwap"):
				cur := e.eval(lv, st)
				eq := c.valueEq(cur, args[1], t)
				if ct, ok := cur.(*Term); ok {
					if nt, ok := args[2].(*Term); ok {
						e.assignTo(lv, Ite(eq, coerce(nt, ct.Sort), ct), st)
						return eq, true
					}
				}
			case strings.HasPrefix(name, "Swap"):
				cur := e.eval(lv, st)
				e.assignTo(lv, args[1], st)
				return cur, true
			}
		}
	}
	c.havocAll(st, "atomic")
	return e.opaque(call, st), true
}

// channel operations: channels declared as locks behave as locks; everything else is an event without state.
func (c *FCtx) protoChanOp(e *Env, st *State, ch ast.Expr, send bool, pos token.Pos) {
	ch = stripParens(ch)
	sx, ok := ch.(*ast.SelectorExpr)
	if !ok {
		return
	}
	sel := e.Info.Selections[sx]
	if sel == nil || sel.Kind() != types.FieldVal {
		return
	}
	ref, owner, fld, ok := e.fieldAddr(sx, st)
	if !ok {
		return
	}
	name := structKey(owner) + "." + fld.Name()
	if d := c.W.chanDecl(name); d != nil {
		switch d.Kind {
		case "lock":
			key := c.lockKey(owner, fld.Name(), false)
			if send {
				c.lockOp(st, key, ref, "Lock", pos, name)
			} else {
				c.lockOp(st, key, ref, "Unlock", pos, name)
			}
		case "event":
			key := "E$" + name
			if send {
				key += "$send"
			} else {
				key += "$recv"
			}
			arr := c.heapGet(st, key, SArr(SInt, SInt))
			c.heapSet(st, key, Store(arr, ref, IAdd(Select(arr, ref), IntC(1))))
			c.eventsTouched[key] = name
		}
	}
}

func (c *FCtx) protoChanRecvValue(e *Env, st *State, ch ast.Expr, pos token.Pos) Value {
	t := e.Info.TypeOf(ch)
	if cht, ok := t.Underlying().(*types.Chan); ok {
		v, facts := c.freshValue(cht.Elem(), "recv")
		for _, f := range facts {
			st.assume(f)
		}
		c.eventValue(e, st, ch, v, false)
		// declared facts about values carried by the channel
		if c.chanValueNonNil(e, st, ch) {
			if t, ok := v.(*Term); ok && t.Sort == SInt {
				st.assume(Neq(t, IntC(0)))
			}
		}
		// handoff channel: receiving `false` hands the named lock to the receiver
		if lock, ref, owner, ok := c.handoffOf(e, st, ch); ok {
			if b, isB := v.(*Term); isB && b.Sort == SBool {
				key := c.lockKey(owner, lock, false)
				arr := c.heapGet(st, key, SArr(SInt, SInt))
				st.assume(IGe(Select(arr, ref), IntC(0)))
				c.heapSet(st, key, Store(arr, ref, IAdd(Select(arr, ref), Ite(b, IntC(0), IntC(1)))))
				c.locksTouched[key] = structKey(owner) + "." + lock
			}
		}
		return v
	}
	return c.freshVar("recv", SInt)
}

// chanValueNonNil: "chanvalue T.ch nonnil" — only non-nil values are ever sent on the channel (assumed; listed).
func (c *FCtx) chanValueNonNil(e *Env, st *State, ch ast.Expr) bool {
	sx, ok := stripParens(ch).(*ast.SelectorExpr)
	if !ok {
		return false
	}
	key, _, _ := fieldKeyOf(e.Info, sx)
	name := strings.TrimPrefix(key, "F$")
	for _, d := range c.W.Specs.Decls {
		if d.Kind == "chanvalue" {
			f := strings.Fields(d.Text)
			if len(f) >= 2 && f[1] == "nonnil" && (f[0] == name || d.PkgName+"."+f[0] == name) {
				c.noteAssumed("only non-nil values are sent on " + name)
				return true
			}
		}
	}
	return false
}

// handoffOf: is ch declared "handoff T.ch T.lock" (sending/receiving false moves the lock)?
func (c *FCtx) handoffOf(e *Env, st *State, ch ast.Expr) (string, *Term, types.Type, bool) {
	sx, ok := stripParens(ch).(*ast.SelectorExpr)
	if !ok {
		return "", nil, nil, false
	}
	sel := e.Info.Selections[sx]
	if sel == nil || sel.Kind() != types.FieldVal {
		return "", nil, nil, false
	}
	ref, owner, fld, ok := e.fieldAddr(sx, st)
	if !ok {
		return "", nil, nil, false
	}
	name := structKey(owner) + "." + fld.Name()
	for _, d := range c.W.Specs.Decls {
		if d.Kind != "handoff" {
			continue
		}
		f := strings.Fields(d.Text)
		if len(f) >= 2 && (f[0] == name || d.PkgName+"."+f[0] == name) {
			lk := f[1]
			if k := strings.LastIndex(lk, "."); k >= 0 {
				lk = lk[k+1:]
			}
			return lk, ref, owner, true
		}
	}
	return "", nil, nil, false
}

// protoSendValue: sending `false` on a handoff channel releases the lock to the receiver.
// eventValue: per-value counters for bool-carrying event channels (sentv/recvdv in specs).
func (c *FCtx) eventValue(e *Env, st *State, ch ast.Expr, v Value, send bool) {
	sx, ok := stripParens(ch).(*ast.SelectorExpr)
	if !ok {
		return
	}
	b, isB := v.(*Term)
	if !isB || b.Sort != SBool {
		return
	}
	sel := e.Info.Selections[sx]
	if sel == nil || sel.Kind() != types.FieldVal {
		return
	}
	ref, owner, fld, ok := e.fieldAddr(sx, st)
	if !ok {
		return
	}
	name := structKey(owner) + "." + fld.Name()
	d := c.W.chanDecl(name)
	if d == nil || d.Kind != "event" {
		return
	}
	dir := "recv"
	if send {
		dir = "send"
	}
	for _, tv := range []struct {
		suffix string
		inc    *Term
	}{{"T", Ite(b, IntC(1), IntC(0))}, {"F", Ite(b, IntC(0), IntC(1))}} {
		key := "E$" + name + "$" + dir + tv.suffix
		arr := c.heapGet(st, key, SArr(SInt, SInt))
		c.heapSet(st, key, Store(arr, ref, IAdd(Select(arr, ref), tv.inc)))
		c.eventsTouched[key] = name
	}
}

func (c *FCtx) protoSendValue(e *Env, st *State, ch ast.Expr, v Value) {
	c.eventValue(e, st, ch, v, true)
	if lock, ref, owner, ok := c.handoffOf(e, st, ch); ok {
		if b, isB := v.(*Term); isB && b.Sort == SBool {
			key := c.lockKey(owner, lock, false)
			arr := c.heapGet(st, key, SArr(SInt, SInt))
			c.heapSet(st, key, Store(arr, ref, ISub(Select(arr, ref), Ite(b, IntC(0), IntC(1)))))
			c.locksTouched[key] = structKey(owner) + "." + lock
		}
	}
}

func (w *World) chanDecl(name string) *Decl {
	for _, d := range w.Specs.Decls {
		if d.Kind == "lock" || d.Kind == "event" {
			f := strings.Fields(d.Text)
			if len(f) > 0 && f[0] == name {
				return d
			}
			// allow unqualified "DB.writeLockC"
			if len(f) > 0 && d.PkgName+"."+f[0] == name {
				return d
			}
		}
	}
	return nil
}

func (c *FCtx) protoGo(e *Env, x *ast.GoStmt, st *State)                                   {}
func (c *FCtx) protoFieldWrite(e *Env, st *State, owner types.Type, f *types.Var, p token.Pos) {}
func (c *FCtx) protoFieldRead(e *Env, st *State, owner types.Type, f *types.Var, p token.Pos)  {}
func (c *FCtx) protoPanic(e *Env, st *State, pos token.Pos)                                 {}
func (c *FCtx) protoClose(e *Env, st *State, ch ast.Expr, pos token.Pos)                    {}
func (c *FCtx) protoDynamicCall(e *Env, st *State, call *ast.CallExpr)                      {}
func (c *FCtx) protoAfterContract(e *Env, st *State, old *State, ct *Contract, post *SpecEnv) {}
func (c *FCtx) protoEntry(e *Env, st *State)                                                {}
func (c *FCtx) pendingWrites(st *State, keys []string)                                      {}
func (c *FCtx) globalFacts(st *State, v *types.Var, val Value) {
	// global invariants declared in contract files: "protect"-style facts are added by name
	for _, a := range c.W.Specs.Axioms {
		if a.Name == "global."+v.Name() && !c.inGlobalFact {
			c.inGlobalFact = true
			se := &SpecEnv{C: c, Pkg: c.W.ByName[a.PkgName], B: &Bindings{vals: map[string]TV{v.Name(): {val, v.Type()}}}, Cur: st, Old: st}
			st.assume(se.evalBool(a.Expr))
			c.inGlobalFact = false
			c.noteAssumed("global invariant " + a.Name)
		}
	}
}

func (c *FCtx) noteAssumed(s string) {
	for _, x := range c.Assumed {
		if x == s {
			return
		}
	}
	c.Assumed = append(c.Assumed, s)
}

func (c *FCtx) protoSpecCall(se *SpecEnv, name string, args []*SExpr) (TV, bool) {
	switch name {
	case "calls":
		if len(args) != 1 || args[0].Kind != "str" {
			se.fail("calls expects a string: calls(\"(*DB).writeJournal\")")
		}
		key := "G$calls." + args[0].Lit
		arr := c.heapGet(se.Cur, key, SArr(SInt, SInt))
		return TV{Select(arr, IntC(0)), nil}, true
	case "last", "lastok":
		// logical time of the last (successful) call of a counted function; 0 if there was none
		if len(args) != 1 || args[0].Kind != "str" {
			se.fail("%s expects a string", name)
		}
		if !c.W.countedName(args[0].Lit) {
			se.fail("%s: %q is not a counted function (add a count directive)", name, args[0].Lit)
		}
		key := "G$calls." + args[0].Lit
		arr := c.heapGet(se.Cur, key, SArr(SInt, SInt))
		clk := Select(c.heapGet(se.Cur, clockKey, SArr(SInt, SInt)), IntC(0))
		l, lo := Select(arr, IntC(1)), Select(arr, IntC(2))
		se.assumeFact(And(IGe(lo, IntC(0)), ILe(lo, l), ILe(l, clk)))
		if name == "last" {
			return TV{l, nil}, true
		}
		return TV{lo, nil}, true
	case "sentv", "recvdv":
		arg := args[0]
		if arg.Kind != "sel" || len(args) != 2 || args[1].Kind != "bool" {
			se.fail("%s expects obj.chanfield, true|false", name)
		}
		obj := se.eval(arg.Args[0])
		key := "E$" + structKey(obj.T) + "." + arg.Name
		if name == "sentv" {
			key += "$send"
		} else {
			key += "$recv"
		}
		if args[1].Lit == "true" {
			key += "T"
		} else {
			key += "F"
		}
		arr := c.heapGet(se.Cur, key, SArr(SInt, SInt))
		return TV{Select(arr, obj.V.(*Term)), nil}, true
	case "sent", "recvd":
		// sent(db.writeAckC): event counter
		arg := args[0]
		if arg.Kind != "sel" {
			se.fail("%s expects obj.chanfield", name)
		}
		obj := se.eval(arg.Args[0])
		key := "E$" + structKey(obj.T) + "." + arg.Name
		if name == "sent" {
			key += "$send"
		} else {
			key += "$recv"
		}
		arr := c.heapGet(se.Cur, key, SArr(SInt, SInt))
		return TV{Select(arr, obj.V.(*Term)), nil}, true
	}
	return TV{}, false
}

// protoLoopInvariants: lock counters at the loop head equal their value at loop entry (auto invariant for the sweep).
func (c *FCtx) protoLoopInvariants(e *Env, ordinal int) []loopInv {
	if !c.LockSweep && !c.AutoLocks {
		return nil
	}
	return []loopInv{{label: "locks-unchanged", text: "lock counters at loop head equal those at loop entry",
		eval: func(e *Env, st *State, entry *State) *Term {
			var cs []*Term
			for key := range c.locksTouched {
				if c.transferred(key) && c.loopSpeaksOfLocks(ordinal) {
					continue
				}
				a := c.heapGet(st, key, SArr(SInt, SInt))
				b := c.heapGet(entry, key, SArr(SInt, SInt))
				cs = append(cs, c.sameOnOld(a, b))
			}
			return And(cs...)
		}}}
}

// protoExit: balanced-lock obligations at function exits.
func (c *FCtx) protoExit(e *Env, st *State, tag string, pos token.Pos) {
	if !c.LockSweep && !c.AutoLocks {
		return
	}
	for key, name := range c.locksTouched {
		if c.transferred(key) {
			continue
		}
		a := c.heapGet(st, key, SArr(SInt, SInt))
		b := c.heapGet(c.entry, key, SArr(SInt, SInt))
		c.oblige(st, "balanced", fmt.Sprintf("balanced(%s)#%s", name, tag), pos, c.sameOnOld(a, b), "lock released or handed over on this exit")
	}
}

// protoUnwind: the callee may leave by a panic that is recovered further up (Effects.Unwinds). The deferred calls
// registered so far are what runs on that way out: after them every lock this function touched must be as at entry.
func (c *FCtx) protoUnwind(e *Env, st *State, call *ast.CallExpr, cl callee) {
	if len(c.locksTouched) == 0 {
		return
	}
	u := st.clone()
	for f := len(u.defers) - 1; f >= 0; f-- {
		frame := u.defers[f]
		u.defers[f] = nil
		for i := len(frame) - 1; i >= 0; i-- {
			frame[i].run(u)
		}
	}
	if u.dead {
		return
	}
	ord := "call#?"
	if cl.fn != nil {
		ord = c.callOrdinal(call, cl)
	}
	for key, name := range c.locksTouched {
		if c.transferred(key) {
			continue
		}
		a := c.heapGet(u, key, SArr(SInt, SInt))
		b := c.heapGet(c.entry, key, SArr(SInt, SInt))
		c.oblige(u, "balanced", fmt.Sprintf("balanced-on-unwind(%s)#%s", name, ord), call.Pos(), c.sameOnOld(a, b), "lock given back by the deferred calls when the callee leaves by a recovered panic")
	}
}

// touchLock havocs the counter named by "held(x.l)" in st.
func (c *FCtx) touchLock(se *SpecEnv, item string, st *State) {
	ex, err := parseSpec(item)
	if err != nil || ex.Kind != "call" || ex.Args[0].Kind != "id" || (ex.Args[0].Name != "held" && ex.Args[0].Name != "rheld") {
		panic(specFail("touches expects held(obj.lock): " + item))
	}
	arg := ex.Args[1]
	if arg.Kind != "sel" {
		panic(specFail("touches expects held(obj.lock): " + item))
	}
	obj := se.withState(st).eval(arg.Args[0])
	key := c.lockKey(obj.T, arg.Name, ex.Args[0].Name == "rheld")
	arr := c.heapGet(st, key, SArr(SInt, SInt))
	// counters are never negative, before or after the call
	st.assume(IGe(Select(arr, obj.V.(*Term)), IntC(0)))
	nh := c.freshVar("held", SInt)
	st.assume(IGe(nh, IntC(0)))
	c.heapSet(st, key, Store(arr, obj.V.(*Term), nh))
	if _, ok := c.locksTouched[key]; !ok {
		c.locksTouched[key] = strings.TrimPrefix(key, "L$")
	}
}

// transferred: the function's own contract speaks about this lock (touches), so the automatic balance
// obligation does not apply to it.
// loopSpeaksOfLocks: the contract gives this loop its own invariant about lock counters.
func (c *FCtx) loopSpeaksOfLocks(ordinal int) bool {
	if c.Contract == nil {
		return false
	}
	if ordinal < 0 {
		for _, l := range c.Contract.LabelLoops {
			for _, inv := range l.Invs {
				if strings.Contains(inv.Text, "held(") {
					return true
				}
			}
		}
		return false
	}
	if l := c.Contract.Loops[ordinal]; l != nil {
		for _, inv := range l.Invs {
			if strings.Contains(inv.Text, "held(") {
				return true
			}
		}
	}
	return false
}

// sameOnOld: two lock-counter maps agree on every object that existed when the function was entered.
func (c *FCtx) sameOnOld(a, b *Term) *Term {
	if termEq(a, b) {
		return TTrue
	}
	r := Var(c.freshName("r"), SInt)
	return Forall([]*Term{r}, Implies(ILt(r, Var("$alloc@pre", SInt)), Eq(Select(a, r), Select(b, r))))
}

func (c *FCtx) transferred(key string) bool {
	if c.Contract == nil {
		return false
	}
	for _, ex := range c.Contract.Extra {
		if ex.Kind == "touches" {
			for _, item := range splitTopLevel(ex.Text, ',') {
				k := strings.TrimSuffix(strings.TrimPrefix(strings.TrimSpace(item), "held("), ")")
				if i := strings.LastIndex(k, "."); i >= 0 && strings.HasSuffix(key, "."+k[i+1:]) {
					return true
				}
			}
		}
	}
	return false
}

// havocLoopHeap forgets the heap locations a loop body may write.
// havocLoopGhosts forgets the ghost globals assigned by "at" clauses anchored inside the loop body.
func (c *FCtx) havocLoopGhosts(st *State, body *ast.BlockStmt) {
	if c.Contract == nil || body == nil {
		return
	}
	lo, hi := body.Pos(), body.End()
	in := map[string]bool{}
	for pos, ord := range c.callOrd {
		if lo <= pos && pos <= hi {
			in["call "+ord] = true
			in["before call "+ord] = true
			if k := strings.LastIndex(ord, "#"); k > 0 {
				in["call "+ord[:k]+"#*"] = true
				in["before call "+ord[:k]+"#*"] = true
			}
		}
	}
	for pos, ord := range c.stmtOrd {
		if lo <= pos && pos <= hi {
			in["before "+ord] = true
			in["after "+ord] = true
		}
	}
	for _, at := range c.Contract.Ats {
		if !in[at.Where] {
			continue
		}
		for _, cl := range at.Clauses {
			if cl.Kind != "ghost" {
				continue
			}
			k := strings.Index(cl.Text, "=")
			if k < 0 {
				continue
			}
			name := strings.TrimSpace(cl.Text[:k])
			if gt, ok := c.W.Specs.GhostVars[name]; ok {
				srt, _ := c.specSort(gt)
				st.heap["G$"+name] = c.freshVar("G$"+name, SArr(SInt, srt))
			}
		}
	}
}

func (c *FCtx) havocLoopHeap(e *Env, st *State, body *ast.BlockStmt, extra []ast.Node, spec *LoopSpec, entry *State) {
	c.havocLoopGhosts(st, body)
	// earlier iterations may have allocated
	{
		old := c.heapGet(st, "$alloc", SInt)
		n := c.freshVar("$alloc", SInt)
		st.heap["$alloc"] = n
		st.assume(IGe(n, old))
	}
	if spec != nil && len(spec.Modifies) > 0 {
		se := &SpecEnv{C: c, Pkg: e.Pkg, B: c.topBindings, Cur: st, Old: c.entry, Env: e}
		for _, m := range spec.Modifies {
			se.havocModifies(m.Text, st)
		}
		// ghost protocol state (locks, events, call counters) is never covered by a modifies clause
		c.havocLocks(st, c.W.bodyWrites(e, body))
		return
	}
	ws := c.W.bodyWrites(e, body)
	for _, x := range extra {
		if x != nil {
			if s, ok := x.(ast.Stmt); ok {
				w2 := c.W.bodyWrites(e, &ast.BlockStmt{List: []ast.Stmt{s}})
				ws.merge(w2)
			}
		}
	}
	if ws.Unknown {
		c.havocAll(st, "loop body")
		c.havocLocks(st, ws)
		return
	}
	var keys []string
	for k := range ws.Writes {
		keys = append(keys, k)
	}
	if os.Getenv("GOCV_LOOPWRITES") != "" {
		sort.Strings(keys)
		fmt.Fprintf(os.Stderr, "loop writes in %s: %v\n", c.FI.Key, keys)
	}
	c.havocWriteSet(st, keys)
	c.havocLocks(st, ws)
}

func (c *FCtx) havocLocks(st *State, ws *Effects) {
	c.havocGhostWrites(st, ws)
	var calls []string
	for k := range ws.Locks {
		if strings.HasPrefix(k, "G$calls.") {
			calls = append(calls, k)
		}
	}
	defer func() { c.clockAfterHavoc(st, calls) }()
	for k := range ws.Locks {
		prev := c.heapGet(st, k, SArr(SInt, SInt))
		st.heap[k] = c.freshVar(k, SArr(SInt, SInt))
		if strings.HasPrefix(k, "G$calls.") && k != clockKey {
			// call counts only grow
			st.assume(IGe(Select(st.heap[k], IntC(0)), Select(prev, IntC(0))))
		}
		if !strings.HasPrefix(k, "L$") {
			continue // event and call counters: no automatic invariant
		}
		if _, ok := c.locksTouched[k]; !ok {
			c.locksTouched[k] = strings.TrimPrefix(k, "L$")
		}
	}
}
